#!/usr/bin/env python3
"""Writes the committed regression inputs for the findings of DESIGN.md section 5 into /verif/replays/F*.json."""
import json, sys

BASE = {"vis": 0, "clients": 1, "max_size": [1200, 1200, 1200], "policy": 0, "auth": 0, "mismatch": 0, "period": 3,
        "periodic": False, "refs": False, "children": False, "sync": False, "track": False, "faults": False,
        "prespawn": False, "events": False, "slots": 5, "timeout_ms": 10000, "big": False,
        "children_any_vis": False, "no_exclusions": False}

def S(slot, comps=("A",), marked=True): return {"Spawn": {"slot": slot, "marked": marked, "comps": list(comps)}}
def T(tick=True): return {"ServerFrame": {"tick": tick}}
def CF(c=0): return {"ClientFrame": {"client": c}}
def DU(c=0, n=8): return {"DeliverUpd": {"client": c, "n": n}}
def DM(c=0, idx=0): return {"DeliverMut": {"client": c, "idx": idx}}
def XM(c=0, idx=0): return {"DropMut": {"client": c, "idx": idx}}
def DA(c=0, n=8): return {"DeliverAck": {"client": c, "n": n}}
def MU(slot, k="A"): return {"Mutate": {"slot": slot, "k": k}}
def INS(slot, k): return {"Insert": {"slot": slot, "k": k}}
def REM(slot, k): return {"Remove": {"slot": slot, "k": k}}
def DES(slot): return {"Despawn": {"slot": slot}}
def VIS(c, slot, v): return {"Vis": {"client": c, "slot": slot, "visible": v}}
def MARK(slot, on): return {"Marker": {"slot": slot, "on": on}}
SYNC = [T(), DU(), DM(), DM(), CF(), DA()]

F = {}
# F1: mutate message acknowledged while buffered, later skipped as outdated
F["F1"] = ("C01", "lossy", {}, [S(0, ("A", "C")), *SYNC, INS(1 - 1, "S"), T(), MU(0, "A"), T(), DM(0, 0), CF(), DA(), MU(0, "C"), T(),
            # newest mutate message first, then the held-back update message
            DM(0, 65535), DU(0, 1), CF(), DA(), T(), DU(), DM(), DM(), CF(), DA()])
F["F2"] = ("C08", "vis", {"vis": 1}, [S(0, ("A",)), *SYNC, VIS(0, 0, False), DES(0), T(), DU(), CF()])
F["F3"] = ("C03", "structural", {}, [S(0, ("A",)), *SYNC, REM(0, "A"), T(False), DES(0), T(), DU(), CF()])
F["F9"] = ("C03", "structural", {}, [S(0, ("A", "S")), *SYNC, REM(0, "A"), T(False), REM(0, "S"), T(), DU(), CF()])
F["F8"] = ("C03", "structural", {"refs": True}, [S(0, ()), S(1, ()), {"SetRef": {"slot": 1, "target": 0}}, INS(0, "A"), T(), DU(), CF()])
F["F11"] = ("C11", "related", {"children": True, "sync": True}, [S(0, ("A",)), S(1, ("A",)), {"SetParent": {"slot": 1, "parent": 0}}, *SYNC])
F["F16"] = ("C09", "faults", {"faults": True}, [S(0, ("A",)), *SYNC, REM(0, "A"), T(False), "ServerStop", DES(0), T(False), "ServerStart"])
F["F18"] = ("C07", "auth", {"clients": 2}, [S(0, ()), *SYNC, {"Connect": {"client": 1}}])
F["F21"] = ("C08", "vis", {"vis": 2}, [S(1, ("A",)), VIS(0, 1, True), T(), VIS(0, 1, False), VIS(0, 1, True), VIS(0, 1, False)])
# F22: client event queue recycles non-empty buffers across sessions
def ES(kind="Dep", mode=0, target=0, refslot=0): return {"EmitS": {"kind": kind, "mode": mode, "target": target, "refslot": refslot}}
def DSE(c=0): return {"DeliverSEv": {"client": c, "chan": 0, "idx": 0}}
F["F22"] = ("C09", "faults", {"faults": True, "events": True},
            [S(0, ("A",)), *SYNC, INS(0, "S"), ES(), T(), DSE(), CF(), {"Disconnect": {"client": 0}}, {"Connect": {"client": 0}}, *SYNC,
             INS(0, "B"), ES(), T(), DSE(), CF(), DU(), CF(), CF()])
# known findings (replayed with the generator exclusions switched off)
F["F4"] = ("C01", "periodic", {"periodic": True, "period": 3, "no_exclusions": True},
           [S(0, ("A", "P")), *SYNC, *SYNC, *SYNC, MU(0, "A"), MU(0, "P"), *SYNC, *SYNC])
F["F14"] = ("C08", "vis", {"vis": 1, "no_exclusions": True}, [S(0, ("C",)), *SYNC, VIS(0, 0, False), T(), DU(), CF(), MARK(0, False), MARK(0, True), T(), DU(), CF()])
F["F15"] = ("C01", "general", {"no_exclusions": True}, [S(0, ("A",)), T(False), MU(0, "A"), T(), DM(), CF(), DA(), DU(), CF()])
F["F17a"] = ("C03", "structural", {"children": True, "no_exclusions": True},
             [S(0, ("A",)), S(1, ("A",)), {"SetParent": {"slot": 1, "parent": 0}}, *SYNC, {"DelParent": {"slot": 1}}, DES(0), T(), DU(), CF()])
F["F17b"] = ("C03", "structural", {"children": True, "no_exclusions": True},
             [S(0, ("A",)), S(1, ("A",)), S(2, ("A",)), {"SetParent": {"slot": 2, "parent": 0}}, *SYNC, {"SetParent": {"slot": 2, "parent": 1}}, T(), XM(), DES(0), T(), DU(), CF()])
F["F23"] = ("C01", "structural", {"refs": True, "no_exclusions": True, "max_size": [60, 1200, 60], "slots": 7},
            [S(6, ()), S(5, ()), {"SetRef": {"slot": 5, "target": 5}}, T(), S(0, ()), {"SetRef": {"slot": 5, "target": 6}}, T(), T(),
             {"SetRef": {"slot": 5, "target": 0}}, MARK(6, False), T(), DM(0, 0), DU(0, 2), DU(0, 1), CF()])
F["F20"] = ("C16", "prespawn", {"vis": 1, "prespawn": True, "no_exclusions": True},
            [{"PreSpawn": {"client": 0, "slot": 0, "kill": False, "gap": False, "early": False}}, VIS(0, 0, False), T(), DU(), CF(), VIS(0, 0, True), T(), DU(), CF()])
# F24: a multi-component rule that starts matching in a later tick than the one that saw its other components
F["F24"] = ("C01", "general", {"bundle": True, "no_exclusions": True}, [S(0, ("X",)), *SYNC, INS(0, "Y"), *SYNC, *SYNC])

for name, (prop, unit, over, steps) in F.items():
    cfg = dict(BASE); cfg.update(over)
    r = {"property": prop, "unit": unit, "finding": name, "case": {"cfg": cfg, "steps": steps}}
    json.dump(r, open(f"/verif/replays/{name}.json", "w"), indent=1)
    if name == "F23":
        r2 = dict(r); r2["property"] = "C03"
        json.dump(r2, open("/verif/replays/F23_c03.json", "w"), indent=1)
    if name == "F24":
        r2 = dict(r); r2["property"] = "C03"; r2["unit"] = "structural"
        json.dump(r2, open("/verif/replays/F24_c03.json", "w"), indent=1)
# findings of the non-engine properties (each in its property's own case format)
OTHER = {
 "F5a": ("C06", "exh2_0_0", {"authorized": False, "chan": 0, "bytes": [1, 1]}),
 "F5b": ("C06", "exh_trigger", {"authorized": False, "chan": 1, "bytes": [255, 255, 255, 255, 255, 255, 255, 255, 127]}),
 "F6a": ("C12", "history", {"start": 0, "ops": [{"Confirm": 2}, {"Confirm": 64}, {"Query": -2}], "counts": [1, 1, 1, 1, 1, 1, 1]}),
 "F6b": ("C12", "history", {"start": 0, "ops": [{"Confirm": 70}, {"Range": [-63, 63]}], "counts": [1, 1, 1, 1, 1, 1, 1]}),
 "F7": ("C17", "batches", {"batches": [{"down": True, "msgs": [[0, 10]] * 16}, {"down": False, "msgs": [[0, 10]] * 16}]}),
 "F10": ("C15", "decode_random", [1, 255, 255, 255, 255, 15]),
 "F12": ("C18", "worlds", {"rules": [{"Single": 0}, {"Pair": 0}], "ents": [{"marked": True, "comps": 3, "prefill": 0}], "foreign": False}),
 "F13": ("C13", "walks", {"auth": 0, "dedicated": False, "steps": [{"Status": 2}, "Frame", "EmitC", "Frame", {"Status": 0}, "Frame", "Frame"]}),
 "F13b": ("C13", "walks", {"auth": 1, "dedicated": False, "steps": [{"Status": 2}, "Frame", {"Status": 0}, "Frame", "Frame"]}),
 "F25": ("C10", "split", {'m': 40, 'n': 4, 'owners': True, 'rounds': [{'deliver': [], 'drop_rest': False, 'graph': [{'Own': [4, 5]}, {'Own': [1, 4]}], 'muts': [[0, 0, 0]]}, {'deliver': [], 'drop_rest': False, 'graph': [{'Own': [4, 3]}], 'muts': [[5, 0, 0], [1, 1, 5], [0, 1, 584]]}], 'track': False}),
 "F19": ("C13", "walks", {"auth": 0, "dedicated": False, "steps": [{"EmitCT": False}, "Frame", {"Status": 1}, "Frame", "Frame"]}),
}
for name, (prop, unit, case) in OTHER.items():
    json.dump({"property": prop, "unit": unit, "finding": name, "case": case}, open(f"/verif/replays/{name}.json", "w"), indent=1)
print("wrote", len(F) + len(OTHER))
