#!/bin/bash
# tools/allquick.sh [seed] [tier]  - runs every registered check once and prints one line each
seed="${1:-0}"; tier="${2:-quick}"
cd /verif
for id in $(./target/verif/vh list); do
  out=$(VERIF_SEED=$seed ./check $id $tier 2>&1); rc=$?
  echo "seed=$seed rc=$rc $(echo "$out" | grep -E '^property=' | tail -1) $(echo "$out" | grep -E 'VIOLATION|INCONCLUSIVE' | head -1)"
done
