#!/bin/bash
# tools/verify_seed.sh <ID> <dir-with-patch.diff-and-demo> : confirms a seeded change in an independent clone (/tmp/sv/repo):
#   demo passes without the change, suite passes with it, demo fails with it. Prints a JSON summary line.
set -u
id="$1"; src="$2"
R=/tmp/sv/repo
export CARGO_TARGET_DIR=/tmp/sv/target CARGO_NET_OFFLINE=true
cd $R && git reset -q --hard HEAD && git clean -qfd
demo=$(ls "$src" | grep -E '\.rs$' | head -1)
name="${demo%.rs}"
if grep -q "bevy_replicon_example_backend" "$src/patch.diff" 2>/dev/null && grep -q "example_backend" "$src/$demo"; then
  cp "$src/$demo" $R/bevy_replicon_example_backend/tests/; pkg="-p bevy_replicon_example_backend"
else
  cp "$src/$demo" $R/tests/; pkg="-p bevy_replicon"
fi
echo "--- demo without the change"
cargo test --offline $pkg --test "$name" > /tmp/sv/$id-demo-clean.log 2>&1; rc_clean=$?
git apply "$src/patch.diff" || { echo "patch does not apply"; exit 3; }
echo "--- suite + demo with the change"
cargo test --offline --workspace --no-fail-fast > /tmp/sv/$id-suite.log 2>&1; rc_suite=$?
failed=$(grep -E "^test .* FAILED|^error: test failed" /tmp/sv/$id-suite.log | sort -u | tr '\n' ';')
passed=$(grep -E "^test result:" /tmp/sv/$id-suite.log | awk '{p+=$4; f+=$6} END {print p" passed, "f" failed"}')
git reset -q --hard HEAD && git clean -qfd
echo "{\"id\": \"$id\", \"demo\": \"$demo\", \"demo_without_change_rc\": $rc_clean, \"suite_with_change_rc\": $rc_suite, \"totals_with_change\": \"$passed\", \"failed_with_change\": \"$failed\"}"
