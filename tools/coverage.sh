#!/bin/bash
# tools/coverage.sh [dir]   line coverage of the library under all quick checks (not a verdict: used to find dimensions the
# generators hold constant, DESIGN.md section 7.2, ninth round). Builds an instrumented copy of the harness into <dir>/target
# (nightly toolchain: llvm-profdata / llvm-cov live there), runs every quick check with a scratch VERIF_ROOT so that
# /verif/evidence is not touched, prints the per-file report and the uncovered lines of the library. Remove <dir> afterwards.
set -eu
D="${1:-/tmp/cov}"; mkdir -p "$D/root/evidence" "$D/prof"
cat > "$D/wrap.sh" <<'EOW'
#!/bin/bash
rustc="$1"; shift
case " $* " in
  *" --crate-name bevy_replicon "*|*" --crate-name bevy_replicon_example_backend "*|*" --crate-name vh "*) exec "$rustc" "$@" -C instrument-coverage ;;
  *) exec "$rustc" "$@" ;;
esac
EOW
chmod +x "$D/wrap.sh"
( cd /verif/harness && RUSTC_WRAPPER="$D/wrap.sh" CARGO_TARGET_DIR="$D/target" CARGO_NET_OFFLINE=true cargo +nightly build --profile verif --offline )
cp -r /verif/known_findings.json /verif/replays /verif/properties.jsonl "$D/root/"
export VERIF_ROOT="$D/root" VERIF_TIER=quick LLVM_PROFILE_FILE="$D/prof/%p-%8m.profraw"
( cd "$D/root" && for id in $("$D/target/verif/vh" list); do "$D/target/verif/vh" check "$id" quick 2>&1 | tail -1; done )
B="$(dirname "$(rustup which --toolchain nightly rustc)")/../lib/rustlib/x86_64-unknown-linux-gnu/bin"
"$B/llvm-profdata" merge -sparse "$D"/prof/*.profraw -o "$D/all.profdata"
"$B/llvm-cov" report "$D/target/verif/vh" -instr-profile="$D/all.profdata" --ignore-filename-regex='(/root/.cargo|/rustc/|/verif/)'
"$B/llvm-cov" export "$D/target/verif/vh" -instr-profile="$D/all.profdata" --ignore-filename-regex='(/root/.cargo|/rustc/|/verif/)' -format=lcov > "$D/all.lcov"
python3 - "$D/all.lcov" <<'EOP'
import sys
cur=None; miss={}
for l in open(sys.argv[1]):
    l=l.strip()
    if l.startswith('SF:'): cur=l[3:]
    elif l.startswith('DA:'):
        n,c=l[3:].split(',')[:2]
        if int(c)==0: miss.setdefault(cur,[]).append(int(n))
for f,lines in sorted(miss.items()):
    src=open(f).read().split('\n')
    print('==',f)
    for n in lines: print(f'  {n}: {src[n-1].strip()[:110]}')
EOP
