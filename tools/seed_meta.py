#!/usr/bin/env python3
"""Writes /verif/seeded/<id>/meta.json and /verif/seeded/README.md from the agents' reports, my own verification
(tools/verify_seed.sh) and the detection results of the selftest rounds (table below, filled from selftest/*.log)."""
import json, os, glob

# seed -> list of (check, tier, result, note)
DETECT = json.load(open('/verif/seeded/detection.json'))
VERIFY = {}
for l in open('/verif/seeded/verification.jsonl'):
    v = json.loads(l); VERIFY[v['id']] = v

rows = []
for d in sorted(glob.glob('/verif/seeded/C*')):
    sid = os.path.basename(d)
    am = json.load(open(f'{d}/agent_meta.json'))
    prop = sid[:3]
    demo = [f for f in os.listdir(d) if f.endswith('.rs')]
    v = VERIFY.get(sid, {})
    meta = {
        "seed": sid,
        "property": prop,
        "summary": am.get("summary"),
        "why_it_breaks": am.get("why_it_breaks"),
        "needs_to_manifest": am.get("needs_to_manifest"),
        "files_changed": am.get("files_changed"),
        "written_by": "independent sub-agent given only the property text and a scratch checkout (nothing from /verif)",
        "demonstration": demo,
        "confirmed_by_me": {
            "how": "tools/verify_seed.sh: fresh clone of /repo HEAD, demo run without the change, then `git apply patch.diff`, `cargo test --offline --workspace --no-fail-fast`",
            "demo_without_change": "passes" if v.get("demo_without_change_rc") == 0 else "NOT CONFIRMED",
            "suite_with_change": v.get("totals_with_change"),
            "failing_targets_with_change": v.get("failed_with_change"),
        },
        "checks_run_against_it": DETECT.get(sid, []),
    }
    json.dump(meta, open(f'{d}/meta.json', 'w'), indent=1)
    rows.append(meta)

with open('/verif/seeded/README.md', 'w') as f:
    f.write("# Seeded breaking changes\n\nEach directory holds one change to bevy_replicon that breaks the named property while compiling and passing the\n"
            "existing suite, written by an independent sub-agent that saw only the property text. `patch.diff` applies to /repo HEAD\n"
            "(`git -C /repo apply <file>`, undo with `git -C /repo checkout -- .`). None of them is ever committed to /repo.\n\n"
            "| seed | property | change | caught by (generated search only, regression replays off) |\n|---|---|---|---|\n")
    for m in rows:
        det = "; ".join(f"{c['check']} {c['tier']}: {c['result']}" for c in m['checks_run_against_it']) or "-"
        f.write(f"| {m['seed']} | {m['property']} | {(m['summary'] or '')[:160].replace('|','/')} | {det} |\n")
print("wrote", len(rows))
