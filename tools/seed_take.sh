#!/bin/bash
# tools/seed_take.sh <PROP> <round-suffix>   e.g. C13 r9
# Takes a finished sub-agent's deliverables from /tmp/seed9/<PROP>/_out into /verif/seeded/<PROP><suffix>, removes the agent's
# worktree (with its build output), and confirms the change in an independent clone (tools/verify_seed.sh).
set -u
p="$1"; suf="$2"; id="$p$suf"
src=/tmp/seed9/$p/_out
[ -f "$src/patch.diff" ] || { echo "no patch in $src"; exit 3; }
mkdir -p /verif/seeded/$id
cp "$src/patch.diff" "$src/seeded_demo.rs" "$src/agent_meta.json" /verif/seeded/$id/
git -C /repo worktree remove --force /tmp/seed9/$p; rm -rf /tmp/seed9/$p
if [ ! -d /tmp/sv/repo ]; then git clone -q /repo /tmp/sv/repo; fi
git -C /tmp/sv/repo fetch -q origin 2>/dev/null; git -C /tmp/sv/repo reset -q --hard "$(git -C /repo rev-parse HEAD)"
export CARGO_PROFILE_DEV_DEBUG=0 CARGO_PROFILE_TEST_DEBUG=0 CARGO_INCREMENTAL=0
/verif/tools/verify_seed.sh "$id" /verif/seeded/$id | tee -a /tmp/sv/verification_r9.jsonl
