#!/usr/bin/env python3
"""Writes /verif/MANIFEST.json from the table below (kept in one place so it stays valid)."""
import json

ENGINE = "harness/src/sim (simulation engine: real server/client Apps, harness-owned link and schedule)"
checks = {
 "C01": ("model-based stateful PBT (proptest): generated histories x schedules x faults, oracle = server World vs client World at quiescence", "3-4",
         "Generated search over histories/schedules/configurations against the real Apps; explores what the lock-step suite never varies. No absence claim."),
 "C02": ("stateful PBT with per-frame invariant: client entity state vs recorded server snapshot at the entity's confirmed tick", "4",
         "Safety invariant evaluated after every client frame of every generated schedule."),
 "C03": ("stateful PBT with per-frame invariant: client structure vs recorded per-client structure at ServerUpdateTick", "4",
         "Safety invariant evaluated after every client frame of every generated schedule."),
 "C04": ("stateful PBT: event delivery log vs harness-recorded required update tick and entity map", "4",
         "Generated emissions and per-channel delays; oracle independent of the wire format."),
 "C05": ("model-based PBT: MUST/MAY/MUST-NOT recipient model vs observed deliveries, sequence-number order", "4",
         "Generated emissions, sessions and delivery orders against a recipient model."),
 "C07": ("stateful PBT: channel whitelist for unauthorized clients + C03/C01 oracles after authorization + recipient model (no dependent event of the unauthorized period is delivered later)", "4",
         "Generated histories under all three authorization methods."),
 "C08": ("stateful PBT with wire-level secret search (raw substring), visibility-query model, C03/C01 effect oracles", "4",
         "Generated visibility/lifecycle histories under both list policies."),
 "C09": ("fault-injection PBT: disconnect / server restart at generated points of generated histories, session-tagged oracles", "4",
         "Generated injection points with whatever is in flight then."),
 "C16": ("stateful PBT: adoption invariant (mapping == pre-spawned entity, entity-count bookkeeping) after every client frame", "4",
         "Generated timings of mapping vs spawn with surrounding traffic."),
 "C06": ("exhaustive byte strings <=2 (<=3 thorough) per client channel + structure-aware mutation PBT of genuine messages (incl. an event with length-prefixed collections and a two-target trigger) + libFuzzer campaign (thorough); oracle: no panic/abort/hang (per-case watchdog), allocation bound, honest client still served, metamorphic: a strict prefix of a genuine message never reaches server logic", "4",
         "Enumerates a finite input space completely and searches beyond it with generated mutations; crash, allocation and serving oracles inside the target."),
 "C10": ("PBT with operational size measurement (shadow clients, no decoding) + generated delivery subsets over graphs of two relationship types (incl. mutual relations, server restarts); oracle: payload conservation, size clauses, group all-or-nothing; plus stateful PBT over whole sessions (split profile, loss, ack timeouts) with the per-entity same-tick invariant and convergence", "4",
         "Generated sizes around the splitting boundaries, evolving relationship graphs and delivery subsets."),
 "C11": ("stateful PBT: idle-silence and re-send oracles by message counts/lengths under generated ack loss/delay/junk, unauthorized peers, diverging real/virtual clocks", "4",
         "Generated acknowledgement patterns; counts and lengths only."),
 "C12": ("model-based PBT: operation sequences vs a plain-set reference model; end-to-end per-tick message accounting", "4",
         "Reference-model comparison over generated confirmation sequences incl. wrap-around and window gaps."),
 "C13": ("stateful PBT over a configuration walk of one App; tagged payloads found by raw search in drain_sent; second unit over the real example backend (loopback) with the connection dropped around the emission frame", "4",
         "Generated status walks and emission frames in all four configurations."),
 "C14": ("metamorphic PBT: single-step edits of registration sequences; equality of hashes <=> equality of canonical sequences, also across differently built apps and processes; end-to-end authorization", "4",
         "Generated registration sequences and edits; cross-process determinism."),
 "C15": ("round-trip PBT + exhaustive enumeration of all byte strings <=3 + mutation-based decoding + libFuzzer campaign (thorough)", "4",
         "Exhaustive over boundary lattice and short strings, random beyond."),
 "C17": ("PBT over real loopback sockets: generated batches, per-channel sequence equality", "4",
         "Generated batch sizes/payload sizes over the real transport."),
 "C18": ("PBT with first-principles reference export; ron round trip", "4",
         "Generated worlds and overlapping rule sets against an independently computed export."),
}
manifest = {
 "version": 1,
 "setup_cmd": "cd /verif/harness && CARGO_NET_OFFLINE=true cargo build --profile verif --offline",
 "hooks": {
   "guard": "bevy_replicon_verif",
   "enable": "no hook is needed: every check drives the library through its public API (drain_sent / insert_received / Worlds); the cfg name is reserved and unused",
   "baseline_off_cmd": "cd /repo && CARGO_NET_OFFLINE=true cargo test --workspace --no-fail-fast --offline",
   "source_commits": [],
   "add_only": True,
 },
 "engines": [
   {"name": "vh", "path": "/verif/harness", "serves_properties": sorted(checks), "kind_free_text": "Rust crate: proptest TestRunner driven from a binary, worker processes, shrinking, replay files; " + ENGINE},
 ],
 "checks": [],
 "notes": "All checks: ./check <ID> <quick|thorough>; replay: ./check <ID> --replay <file>. Known findings: /verif/known_findings.json. See DESIGN.md.",
 "not_applicable": [],
}
import os
extra = {}
if os.path.exists('/verif/tools/manifest_extra.json'):
    extra = json.load(open('/verif/tools/manifest_extra.json'))
for pid in sorted(set(checks) | set(extra.get('checks', {}))):
    if pid in checks:
        tech, ref, text = checks[pid]
    else:
        tech, ref, text = extra['checks'][pid]
    manifest["checks"].append({
        "property_id": pid,
        "quick_cmd": f"./check {pid} quick",
        "thorough_cmd": f"./check {pid} thorough",
        "evidence_file": f"/verif/evidence/{pid}.json",
        "replay_cmd_template": f"./check {pid} --replay {{path}}",
        "engine": "vh",
        "level_claimed": {"category": "exploration", "text": text, "design_ref": f"DESIGN.md section {ref} ({pid})"},
        "level_note": "Trusted base: the harness's link model and reference snapshots (taken from the server World), proptest's generators; bounded history length, entity slots and clients; generator exclusions for known findings are counted in the evidence.",
        "technique": tech,
    })
manifest["engines"][0]["serves_properties"] = [c["property_id"] for c in manifest["checks"]]
allp = [json.loads(l)["id"] for l in open('/verif/properties.jsonl')]
claimed = {c["property_id"] for c in manifest["checks"]}
for pid in allp:
    if pid not in claimed:
        manifest["not_applicable"].append({"property_id": pid, "reason": extra.get('na', {}).get(pid, "check not built yet in this revision (planned, see DESIGN.md)")})
json.dump(manifest, open('/verif/MANIFEST.json', 'w'), indent=1)
print("checks:", len(manifest["checks"]), "not_applicable:", [n["property_id"] for n in manifest["not_applicable"]])
