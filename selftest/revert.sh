#!/bin/bash
# selftest/revert.sh <commit> <ID> [quick|thorough] [--no-replays]
# Reverts one fix commit in /repo's working tree (not committed), runs the check, restores the tree.
# Expected: exit status 1 (VIOLATION). Used to measure the sensitivity of the checks, never part of them.
set -u
commit="$1"; id="$2"; tier="${3:-quick}"
if [ -n "$(git -C /repo status --porcelain --untracked-files=no)" ]; then echo "/repo is not clean"; exit 3; fi
git -C /repo revert --no-commit "$commit" >/dev/null 2>&1 || { echo "cannot revert $commit"; git -C /repo revert --abort 2>/dev/null; git -C /repo reset -q --hard HEAD; exit 3; }
if [ "${4:-}" = "--no-replays" ]; then export VH_SKIP_REPLAYS=1; fi
out=$(cd /verif && ./check "$id" "$tier" 2>&1); rc=$?
git -C /repo revert --abort 2>/dev/null; git -C /repo reset -q --hard HEAD
echo "$out" | grep -E "VIOLATION|KNOWN|INCONCLUSIVE|^property=" | head -5
echo "$out" | grep -vE "VIOLATION|KNOWN|^property=" | tail -2
echo "revert=$commit property=$id rc=$rc"
exit $rc
