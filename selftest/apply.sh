#!/bin/bash
# selftest/apply.sh <patch.diff> <ID> [quick|thorough] [--no-replays]
# Applies a patch to /repo's working tree, runs the check, restores the tree. Expected for a breaking patch: exit 1.
set -u
patch="$1"; id="$2"; tier="${3:-quick}"
if [ -n "$(git -C /repo status --porcelain --untracked-files=no)" ]; then echo "/repo is not clean"; exit 3; fi
git -C /repo apply "$patch" || { echo "patch does not apply"; exit 3; }
if [ "${4:-}" = "--no-replays" ]; then export VH_SKIP_REPLAYS=1; fi
out=$(cd /verif && ./check "$id" "$tier" 2>&1); rc=$?
git -C /repo checkout -- .
echo "$out" | grep -E "VIOLATION|KNOWN|INCONCLUSIVE|^property=" | head -5
echo "$out" | grep -vE "VIOLATION|KNOWN|^property=" | tail -2
echo "patch=$patch property=$id rc=$rc"
exit $rc
