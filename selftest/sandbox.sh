#!/bin/bash
# selftest/sandbox.sh <dir>   creates an independent copy of /repo (HEAD) and of /verif's committed+working files under <dir>
# with all paths rewritten, so that sensitivity experiments never touch /repo or /verif. Remove <dir> when done.
set -eu
D="$1"
mkdir -p "$D"
rm -rf "$D/repo" "$D/verif"
git -C /repo worktree prune
git clone -q /repo "$D/repo"
mkdir -p "$D/verif"
rsync -a --exclude target --exclude .git --exclude fuzz/target --exclude fuzz/corpus /verif/ "$D/verif/"
sed -i "s#path = \"/repo#path = \"$D/repo#g" "$D/verif/harness/Cargo.toml"
sed -i "s#/verif/target#$D/target#" "$D/verif/harness/.cargo/config.toml"
cat > "$D/run.sh" <<EOS
#!/bin/bash
# $D/run.sh revert <commit-subject-pattern> <ID> [tier] [--no-replays]
# $D/run.sh apply <patch> <ID> [tier] [--no-replays]
set -u
export VERIF_ROOT=$D/verif
mode="\$1"; what="\$2"; id="\$3"; tier="\${4:-quick}"
cd $D/repo
git reset -q --hard HEAD
if [ "\$mode" = revert ]; then
  c=\$(git log --format=%h --grep="\$what" | head -1)
  git revert --no-commit "\$c" >/dev/null 2>&1 || { echo "cannot revert \$what"; git revert --abort 2>/dev/null; exit 3; }
else
  git apply "\$what" || { echo "patch does not apply"; exit 3; }
fi
if [ "\${5:-}" = "--no-replays" ]; then export VH_SKIP_REPLAYS=1; fi
sed -i "s#$D/verif/target#$D/target#" $D/verif/check 2>/dev/null
out=\$(cd $D/verif && ROOTT=$D ./check "\$id" "\$tier" 2>&1); rc=\$?
git revert --abort 2>/dev/null; git reset -q --hard HEAD
echo "\$out" | grep -E "VIOLATION|KNOWN|INCONCLUSIVE|^property=" | head -5
echo "\$out" | grep -vE "VIOLATION|KNOWN|^property=" | tail -2
echo "RESULT \$mode=\$what property=\$id rc=\$rc"
exit \$rc
EOS
chmod +x "$D/run.sh"
# the check script writes build logs and finds the binary under \$ROOT/target: point it at the sandbox target dir
sed -i "s#\$ROOT/target#$D/target#g" "$D/verif/check"
echo "sandbox ready: $D"
