//! Driver: `vh check <ID> <quick|thorough>`, `vh replay <file>`, `vh worker ...` (internal).
use std::collections::BTreeMap;
use std::io::Write;
use std::path::{Path, PathBuf};
use std::process::{Command, Stdio};
use std::time::{Duration, Instant};

use serde::{Deserialize, Serialize};
use serde_json::{Value, json};
use vh::common::*;

fn verif_root() -> String {
    std::env::var("VERIF_ROOT").unwrap_or_else(|_| "/verif".to_string())
}

#[derive(Serialize, Deserialize, Default)]
struct WorkerResult {
    stats: Stats,
    failure: Option<(usize, Failure)>,
    per_unit: BTreeMap<String, u64>,
}

#[derive(Deserialize, Clone, Debug)]
struct KnownFinding {
    status: String,
    property: String,
    id: String,
    class: String,
    replay: String,
    #[serde(default)]
    commit: Option<String>,
    what: String,
    /// Properties whose checks also replay this entry (defaults to `property` only).
    #[serde(default)]
    also: Vec<String>,
}

fn jobs(prop: &dyn Prop, tier: Tier) -> Vec<(usize, u32, u32)> {
    let mut out = Vec::new();
    let shard = prop.shard_cases().max(1);
    for (ui, u) in prop.units(tier).iter().enumerate() {
        if u.no_shard {
            out.push((ui, 0, u.cases));
            continue;
        }
        let mut left = u.cases;
        let mut s = 0;
        while left > 0 {
            let n = left.min(shard);
            out.push((ui, s, n));
            left -= n;
            s += 1;
        }
    }
    out
}

fn job_seed(seed: u64, unit: &str, shard: u32) -> u64 {
    splitmix64(seed ^ hash_str(unit).wrapping_mul(0x9E37_79B9_7F4A_7C15) ^ (shard as u64).wrapping_mul(0xD1B5_4A32_D192_ED03))
}

fn worker(args: &[String]) -> i32 {
    let id = &args[0];
    let tier = if args[1] == "thorough" { Tier::Thorough } else { Tier::Quick };
    let seed: u64 = args[2].parse().unwrap();
    let w: usize = args[3].parse().unwrap();
    let n: usize = args[4].parse().unwrap();
    let out = &args[5];
    let prop = vh::props::get(id).expect("unknown property");
    install_panic_hook();
    start_watchdog(case_limit_s(), || {
        eprintln!("a case did not finish within the per-case limit");
        HANG_EXIT
    });
    let units = prop.units(tier);
    let mut res = WorkerResult::default();
    // Jobs are dealt round-robin after a seed-independent interleave so that heavy units spread.
    for (ji, (ui, shard, cases)) in jobs(prop.as_ref(), tier).into_iter().enumerate() {
        if ji % n != w {
            continue;
        }
        let u = &units[ui];
        let before = res.stats.evaluations;
        let f = prop.run_unit(u, cases, job_seed(seed, &u.name, shard), &mut res.stats);
        *res.per_unit.entry(u.name.clone()).or_default() += res.stats.evaluations - before;
        if let Some(f) = f {
            res.failure = Some((ji, f));
            break;
        }
    }
    std::fs::write(out, serde_json::to_vec(&res).unwrap()).unwrap();
    0
}

fn load_known() -> Vec<KnownFinding> {
    let p = Path::new(&verif_root()).join("known_findings.json");
    match std::fs::read(&p) {
        Ok(b) => serde_json::from_slice(&b).expect("known_findings.json is not valid"),
        Err(_) => Vec::new(),
    }
}

fn write_replay(id: &str, f: &Failure) -> PathBuf {
    let body = json!({"property": id, "unit": f.unit, "case": f.case, "class": f.fail.class, "message": f.fail.msg});
    let text = serde_json::to_string_pretty(&body).unwrap();
    let h = hash_str(&text);
    let dir = Path::new(&verif_root()).join("replays");
    let _ = std::fs::create_dir_all(&dir);
    let path = dir.join(format!("{id}-{:012x}.json", h & 0xffff_ffff_ffff));
    std::fs::write(&path, text).unwrap();
    path
}

fn run_replay_file(path: &Path) -> Result<(String, Outcome), String> {
    let b = std::fs::read(path).map_err(|e| format!("{}: {e}", path.display()))?;
    let v: Value = serde_json::from_slice(&b).map_err(|e| e.to_string())?;
    let id = v["property"].as_str().ok_or("replay lacks property")?.to_string();
    let prop = vh::props::get(&id).ok_or("unknown property")?;
    let unit = v["unit"].as_str().unwrap_or("");
    let out = guarded(&id, || prop.replay(unit, &v["case"]));
    Ok((id, out))
}

fn check(id: &str, tier: Tier) -> i32 {
    let t0 = Instant::now();
    let Some(prop) = vh::props::get(id) else {
        eprintln!("unknown property {id}");
        return 2;
    };
    install_panic_hook();
    let seed: u64 = std::env::var("VERIF_SEED").ok().and_then(|s| s.parse::<i64>().ok()).map(|x| x as u64).unwrap_or(0);
    let mut violations: Vec<(String, String)> = Vec::new();
    let mut known_lines = Vec::new();
    let mut regression = Vec::new();

    // 1. regression tier: saved inputs of fixed and known findings
    let skip_replays = std::env::var("VH_SKIP_REPLAYS").is_ok();
    for k in load_known().iter().filter(|k| !skip_replays && (k.property == id || k.also.iter().any(|a| a == id))) {
        let path = Path::new(&verif_root()).join(&k.replay);
        // A replay file names the property whose oracle set it is run under.
        let b = match std::fs::read(&path) {
            Ok(b) => b,
            Err(e) => {
                eprintln!("cannot read {}: {e}", path.display());
                return 2;
            }
        };
        let v: Value = serde_json::from_slice(&b).unwrap();
        let unit = v["unit"].as_str().unwrap_or("").to_string();
        let out = guarded(id, || prop.replay(&unit, &v["case"]));
        let status = match (&out.fail, k.status.as_str()) {
            (None, _) => "pass",
            (Some(f), "known") if f.class == k.class => {
                known_lines.push(format!("KNOWN-FINDING: property={id} {} [{}] {}", k.id, k.class, k.what));
                "known"
            }
            (Some(f), _) => {
                eprintln!("replay {} failed: {}: {}", k.replay, f.class, f.msg);
                violations.push((path.display().to_string(), format!("{}: {}", f.class, f.msg)));
                "fail"
            }
        };
        regression.push(json!({"finding": k.id, "status": k.status, "commit": k.commit, "replay": k.replay, "result": status}));
    }
    for l in &known_lines {
        println!("{l}");
    }

    // 2. generated search in worker processes
    let all_jobs = jobs(prop.as_ref(), tier);
    let ncpu = std::thread::available_parallelism().map(|n| n.get()).unwrap_or(8);
    let n = std::env::var("VERIF_WORKERS").ok().and_then(|s| s.parse().ok()).unwrap_or(ncpu).min(all_jobs.len()).max(1);
    let exe = std::env::current_exe().unwrap();
    let tmp = Path::new(&verif_root()).join("target").join("runs").join(format!("{id}-{}-{}", tier.name(), std::process::id()));
    let _ = std::fs::create_dir_all(&tmp);
    let mut children = Vec::new();
    for w in 0..n {
        let out = tmp.join(format!("w{w}.json"));
        let child = Command::new(&exe)
            .args(["worker", id, tier.name(), &seed.to_string(), &w.to_string(), &n.to_string(), out.to_str().unwrap()])
            .stdin(Stdio::null())
            .spawn()
            .expect("spawn worker");
        children.push((w, child, out));
    }
    let limit = Duration::from_secs(match tier {
        Tier::Quick => 1500,
        Tier::Thorough => 6 * 3600,
    });
    let mut total = Stats::default();
    let mut per_unit: BTreeMap<String, u64> = BTreeMap::new();
    let mut failures: Vec<(usize, Failure)> = Vec::new();
    let mut infra = false;
    let mut died = false;
    for (w, mut child, out) in children {
        if died {
            // one reproduced abort / hang is enough: the other workers are most likely stuck on the same defect
            let _ = child.kill();
            let _ = child.wait();
            continue;
        }
        let status = loop {
            match child.try_wait() {
                Ok(Some(s)) => break Some(s),
                Ok(None) => {
                    if t0.elapsed() > limit {
                        let _ = child.kill();
                        let _ = child.wait();
                        break None;
                    }
                    std::thread::sleep(Duration::from_millis(20));
                }
                Err(_) => break None,
            }
        };
        match status {
            Some(s) if s.success() => match std::fs::read(&out).ok().and_then(|b| serde_json::from_slice::<WorkerResult>(&b).ok()) {
                Some(r) => {
                    total.merge(r.stats);
                    for (k, v) in r.per_unit {
                        *per_unit.entry(k).or_default() += v;
                    }
                    if let Some(f) = r.failure {
                        failures.push(f);
                    }
                }
                None => {
                    eprintln!("worker {w}: no result file");
                    infra = true;
                }
            },
            Some(s) => {
                // Abnormal worker exit (abort, stack overflow, allocation failure): re-run that worker in trace mode to
                // recover the input that kills it. Reproducible => violation; not reproducible => inconclusive.
                eprintln!("worker {w} exited abnormally: {s}; re-running in trace mode");
                let trace = tmp.join(format!("trace{w}.json"));
                let again = Command::new(&exe)
                    .args(["worker", id, tier.name(), &seed.to_string(), &w.to_string(), &n.to_string(), out.to_str().unwrap()])
                    .env("VH_TRACE", &trace)
                    .stdin(Stdio::null())
                    .status();
                match (again, std::fs::read(&trace).ok().and_then(|b| serde_json::from_slice::<Value>(&b).ok())) {
                    (Ok(st), Some(v)) if !st.success() => {
                        died = true;
                        failures.push((
                            0,
                            Failure {
                                unit: v["unit"].as_str().unwrap_or("").to_string(),
                                case: v["case"].clone(),
                                fail: if st.code() == Some(HANG_EXIT) {
                                    Fail::new(&format!("{id}.hang"), format!("this case did not finish within {} s (cases normally take milliseconds)", case_limit_s()))
                                } else {
                                    Fail::new(&format!("{id}.abort"), format!("the process died ({st}) while executing this case"))
                                },
                            },
                        ));
                    }
                    (Ok(st), _) if st.success() => {
                        // the abnormal end did not reproduce; the second run completed and its result counts
                        eprintln!("worker {w}: the abnormal end did not reproduce, using the result of the second run");
                        match std::fs::read(&out).ok().and_then(|b| serde_json::from_slice::<WorkerResult>(&b).ok()) {
                            Some(r) => {
                                total.merge(r.stats);
                                for (k, v) in r.per_unit {
                                    *per_unit.entry(k).or_default() += v;
                                }
                                if let Some(f) = r.failure {
                                    failures.push(f);
                                }
                            }
                            None => infra = true,
                        }
                    }
                    _ => infra = true,
                }
            }
            None => {
                eprintln!("worker {w}: watchdog expired");
                infra = true;
            }
        }
    }
    let _ = std::fs::remove_dir_all(&tmp);
    failures.sort_by_key(|f| f.0);
    if let Some((_, f)) = failures.first() {
        let path = write_replay(id, f);
        eprintln!("violation in unit {}: {}: {}", f.unit, f.fail.class, f.fail.msg);
        violations.push((path.display().to_string(), format!("{}: {}", f.fail.class, f.fail.msg)));
    }

    // 3. evidence
    let units: Vec<Value> = prop
        .units(tier)
        .iter()
        .map(|u| json!({"unit": u.name, "budget": u.cases, "executed": per_unit.get(&u.name).copied().unwrap_or(0)}))
        .collect();
    let ev = json!({
        "property_id": id,
        "tier": tier.name(),
        "seed": seed as i64,
        "level": "exploration",
        "coverage": {
            "evaluations": total.evaluations,
            "distinct_nontrivial": total.distinct(),
            "nontrivial_total": total.nontrivial,
            "rule": prop.rule(),
            "samples": total.samples,
            "classes": total.classes,
            "excluded": total.excluded,
            "units": units,
            "regression_replays": regression,
            "exhaustive": total.exhaustive,
            "workers": n,
            "fuzz": std::env::var("VH_FUZZ_SUMMARY").ok().and_then(|p| std::fs::read(p).ok()).and_then(|b| serde_json::from_slice::<Value>(&b).ok()),
        },
        "assumptions": prop.assumptions(),
        "wall_s": (t0.elapsed().as_millis() as f64) / 1000.0,
        "violations": violations.len(),
    });
    let evdir = Path::new(&verif_root()).join("evidence");
    let _ = std::fs::create_dir_all(&evdir);
    let mut f = std::fs::File::create(evdir.join(format!("{id}.json"))).unwrap();
    f.write_all(serde_json::to_string_pretty(&ev).unwrap().as_bytes()).unwrap();
    f.write_all(b"\n").unwrap();

    println!(
        "property={id} tier={} seed={seed} evaluations={} distinct_nontrivial={} wall_s={:.1}",
        tier.name(),
        total.evaluations,
        total.distinct(),
        t0.elapsed().as_secs_f64()
    );
    if let Some((path, msg)) = violations.first() {
        println!("VIOLATION property={id} replay={path}");
        eprintln!("{msg}");
        return 1;
    }
    if infra {
        println!("INCONCLUSIVE property={id} (infrastructure trouble, see stderr)");
        return 2;
    }
    0
}

fn main() {
    let args: Vec<String> = std::env::args().skip(1).collect();
    let code = match args.first().map(|s| s.as_str()) {
        Some("worker") => worker(&args[1..]),
        Some("check") => {
            let tier = if args.get(2).map(|s| s == "thorough").unwrap_or(false) { Tier::Thorough } else { Tier::Quick };
            check(&args[1], tier)
        }
        Some("replay") => {
            install_panic_hook();
            {
                static REPLAY_FILE: std::sync::OnceLock<String> = std::sync::OnceLock::new();
                let _ = REPLAY_FILE.set(args[1].clone());
                start_watchdog(case_limit_s(), || {
                    let f = REPLAY_FILE.get().cloned().unwrap_or_default();
                    let id = std::fs::read(&f).ok().and_then(|b| serde_json::from_slice::<Value>(&b).ok()).and_then(|v| v["property"].as_str().map(|s| s.to_string())).unwrap_or_default();
                    eprintln!("{id}.hang: the saved case did not finish within the per-case limit");
                    println!("VIOLATION property={id} replay={f}");
                    1
                });
            }
            match run_replay_file(Path::new(&args[1])) {
                Ok((id, out)) => match out.fail {
                    None => {
                        println!("replay passed: property={id}");
                        0
                    }
                    Some(f) => {
                        let known = load_known().into_iter().find(|k| {
                            k.status == "known"
                                && f.class == k.class
                                && Path::new(&verif_root()).join(&k.replay).canonicalize().ok() == Path::new(&args[1]).canonicalize().ok()
                        });
                        eprintln!("{}: {}", f.class, f.msg);
                        match known {
                            Some(k) => {
                                println!("KNOWN-FINDING: property={id} {} [{}] {}", k.id, k.class, k.what);
                                0
                            }
                            None => {
                                println!("VIOLATION property={id} replay={}", args[1]);
                                1
                            }
                        }
                    }
                },
                Err(e) => {
                    eprintln!("{e}");
                    2
                }
            }
        }
        Some("corpus") => {
            // vh corpus <ID> <dir>: small valid inputs as a starting corpus for the libFuzzer campaign
            let dir = Path::new(&args[2]);
            let _ = std::fs::create_dir_all(dir);
            let mut n = 0;
            let mut put = |bytes: Vec<u8>| {
                let _ = std::fs::write(dir.join(format!("seed{n:04}")), bytes);
                n += 1;
            };
            match args[1].as_str() {
                "C15" => {
                    for (i, g) in [(0u32, 1u32), (1, 1), (127, 1), (128, 2), (300, 77), (u32::MAX, 1), (5, (1 << 31) - 1), (u32::MAX, (1 << 31) - 1), (1 << 20, 1 << 20)] {
                        if let Some(e) = vh::props::c15::entity(i, g) {
                            let mut v = Vec::new();
                            let _ = bevy_replicon::shared::entity_serde::serialize_entity(&mut v, e);
                            put(v.clone());
                            let mut w = i.to_le_bytes().to_vec();
                            w.extend(g.to_le_bytes());
                            w.extend(v);
                            put(w);
                        }
                    }
                }
                "C06" => {
                    for auth in 0..2u8 {
                        for ch in 0..vh::props::c06::NCH as u8 {
                            put(vec![auth | (ch << 1), 1, 255]);
                            put(vec![auth | (ch << 1), 1, 2, 0xff, 0xff, 0xff, 0xff, 0x0f]);
                            put(vec![auth | (ch << 1), 0, 0, 1, 2, 3]);
                        }
                    }
                }
                _ => {}
            }
            println!("wrote {n} seed inputs");
            0
        }
        Some("fuzz-replay") => {
            // vh fuzz-replay <ID> <artifact>: run a libFuzzer artifact through the same oracle; on failure write a replay file
            install_panic_hook();
            let id = args[1].as_str();
            let data = std::fs::read(&args[2]).unwrap_or_default();
            let out = match id {
                "C06" => vh::props::c06::run_fuzz(&data),
                "C15" => vh::props::c15::run_fuzz(&data),
                _ => Outcome::ok(),
            };
            match out.fail {
                None => {
                    println!("artifact passes: property={id}");
                    0
                }
                Some(f) => {
                    let fl = Failure { unit: "fuzz".into(), case: json!(data), fail: f };
                    let path = write_replay(id, &fl);
                    eprintln!("{}: {}", fl.fail.class, fl.fail.msg);
                    println!("VIOLATION property={id} replay={}", path.display());
                    1
                }
            }
        }
        Some("hash") => {
            let seq: Vec<vh::props::c14::RegOp> = serde_json::from_str(&args[1]).unwrap();
            println!("{:?}", vh::props::c14::hash_of(&seq));
            0
        }
        Some("gen-stats") => {
            // vh gen-stats <profile> <n>: flag frequencies of generated cases of one profile (generator diagnostics)
            use proptest::strategy::{Strategy, ValueTree};
            let p = vh::sim::generate::Profile::from_name(&args[1]).expect("profile");
            let n: usize = args[2].parse().unwrap_or(1000);
            let strat = vh::sim::generate::case_strategy(p, false);
            let mut runner = proptest::test_runner::TestRunner::deterministic();
            let mut counts: std::collections::BTreeMap<&'static str, usize> = Default::default();
            install_panic_hook();
            for _ in 0..n {
                let case = strat.new_tree(&mut runner).unwrap().current();
                let mut sim = vh::sim::Sim::new(&case.cfg, vh::sim::Oracles::default());
                sim.connect(0);
                for st in &case.steps {
                    sim.step(st);
                }
                for f in &sim.flags {
                    *counts.entry(f).or_default() += 1;
                }
                if case.cfg.owners {
                    *counts.entry("cfg.owners").or_default() += 1;
                }
                if case.cfg.bundle {
                    *counts.entry("cfg.bundle").or_default() += 1;
                }
            }
            for (k, v) in counts {
                println!("{v:>7} {k}");
            }
            0
        }
        Some("list") => {
            for id in vh::props::ids() {
                println!("{id}");
            }
            0
        }
        _ => {
            eprintln!("usage: vh check <ID> <quick|thorough> | vh replay <file> | vh list");
            2
        }
    };
    std::process::exit(code);
}
