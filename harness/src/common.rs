//! Shared infrastructure: seeds, outcome/statistics types, panic capture, proptest glue.
use std::collections::{BTreeMap, BTreeSet};
use std::fmt::Debug;
use std::hash::{Hash, Hasher};
use std::panic::{AssertUnwindSafe, catch_unwind};
use std::sync::Mutex;

use proptest::strategy::Strategy;
use proptest::test_runner::{Config as PtConfig, RngSeed, TestCaseError, TestError, TestRunner};
use serde::{Deserialize, Serialize};
use serde_json::Value;

pub fn splitmix64(mut x: u64) -> u64 {
    x = x.wrapping_add(0x9E37_79B9_7F4A_7C15);
    let mut z = x;
    z = (z ^ (z >> 30)).wrapping_mul(0xBF58_476D_1CE4_E5B9);
    z = (z ^ (z >> 27)).wrapping_mul(0x94D0_49BB_1331_11EB);
    z ^ (z >> 31)
}

pub fn hash_str(s: &str) -> u64 {
    let mut h = std::collections::hash_map::DefaultHasher::new();
    s.hash(&mut h);
    h.finish()
}

#[derive(Clone, Copy, Debug, PartialEq, Eq, Serialize, Deserialize)]
#[serde(rename_all = "lowercase")]
pub enum Tier {
    Quick,
    Thorough,
}

impl Tier {
    pub fn name(self) -> &'static str {
        match self {
            Tier::Quick => "quick",
            Tier::Thorough => "thorough",
        }
    }
}

/// An oracle failure: `class` is a short stable code used as the known-finding signature.
#[derive(Clone, Debug, Serialize, Deserialize, PartialEq)]
pub struct Fail {
    pub class: String,
    pub msg: String,
}

impl Fail {
    pub fn new(class: &str, msg: impl Into<String>) -> Self {
        Fail { class: class.to_string(), msg: msg.into() }
    }
}

/// What executing one case told us.
#[derive(Clone, Debug, Default)]
pub struct Outcome {
    pub fail: Option<Fail>,
    pub nontrivial: bool,
    pub classes: Vec<&'static str>,
    pub excluded: Vec<(&'static str, u64)>,
}

impl Outcome {
    pub fn ok() -> Self {
        Self::default()
    }
    pub fn failed(f: Fail) -> Self {
        Outcome { fail: Some(f), ..Default::default() }
    }
}

/// One schedulable unit of generated search (a configuration of a property with a case budget).
#[derive(Clone, Debug, Serialize, Deserialize)]
pub struct Unit {
    pub name: String,
    pub cases: u32,
    #[serde(default)]
    pub param: Value,
    /// Units that do fixed (non-generated) work are not sharded.
    #[serde(default)]
    pub no_shard: bool,
}

impl Unit {
    pub fn new(name: &str, cases: u32) -> Self {
        Unit { name: name.to_string(), cases, param: Value::Null, no_shard: false }
    }
    pub fn with(mut self, param: Value) -> Self {
        self.param = param;
        self
    }
    pub fn fixed(mut self) -> Self {
        self.no_shard = true;
        self
    }
}

#[derive(Clone, Debug, Serialize, Deserialize)]
pub struct Failure {
    pub unit: String,
    pub case: Value,
    pub fail: Fail,
}

#[derive(Clone, Debug, Default, Serialize, Deserialize)]
pub struct Stats {
    pub evaluations: u64,
    pub nontrivial: u64,
    pub nontrivial_hashes: BTreeSet<u64>,
    pub classes: BTreeMap<String, u64>,
    pub excluded: BTreeMap<String, u64>,
    pub samples: Vec<Value>,
    pub exhaustive: bool,
    /// non-trivial cases that are distinct by construction (enumerated, not hashed)
    #[serde(default)]
    pub distinct_enumerated: u64,
}

impl Stats {
    pub fn record(&mut self, case_json: impl FnOnce() -> Value, hash: u64, out: &Outcome) {
        beat();
        self.evaluations += 1;
        for c in &out.classes {
            *self.classes.entry((*c).to_string()).or_default() += 1;
        }
        for (k, n) in &out.excluded {
            if *n > 0 {
                *self.excluded.entry((*k).to_string()).or_default() += n;
            }
        }
        if out.nontrivial {
            self.nontrivial += 1;
            let new = self.nontrivial_hashes.insert(hash);
            if new && self.samples.len() < 3 {
                self.samples.push(case_json());
            }
        }
    }
    /// Records a case of an enumeration (distinct from every other case by construction).
    pub fn record_enumerated(&mut self, case_json: impl FnOnce() -> Value, out: &Outcome) {
        beat();
        self.evaluations += 1;
        for c in &out.classes {
            *self.classes.entry((*c).to_string()).or_default() += 1;
        }
        if out.nontrivial {
            self.nontrivial += 1;
            self.distinct_enumerated += 1;
            if self.samples.len() < 3 && self.distinct_enumerated % 1000 == 1 {
                self.samples.push(case_json());
            }
        }
    }
    pub fn distinct(&self) -> u64 {
        self.nontrivial_hashes.len() as u64 + self.distinct_enumerated
    }
    pub fn merge(&mut self, other: Stats) {
        self.distinct_enumerated += other.distinct_enumerated;
        self.evaluations += other.evaluations;
        self.nontrivial += other.nontrivial;
        self.nontrivial_hashes.extend(other.nontrivial_hashes);
        for (k, v) in other.classes {
            *self.classes.entry(k).or_default() += v;
        }
        for (k, v) in other.excluded {
            *self.excluded.entry(k).or_default() += v;
        }
        for s in other.samples {
            if self.samples.len() < 5 {
                self.samples.push(s);
            }
        }
        self.exhaustive |= other.exhaustive;
    }
}

static LAST_PANIC: Mutex<Option<String>> = Mutex::new(None);

/// Bumped whenever a case starts or is recorded; the watchdog thread of a worker looks at it.
pub static HEARTBEAT: std::sync::atomic::AtomicU64 = std::sync::atomic::AtomicU64::new(0);

pub fn beat() {
    HEARTBEAT.fetch_add(1, std::sync::atomic::Ordering::Relaxed);
}

/// Set while proptest shrinks a failure: its value-tree operations on long step vectors can take many seconds between
/// two executions of the case, which is the library's business and not a hang of the tested code.
pub static SHRINKING: std::sync::atomic::AtomicBool = std::sync::atomic::AtomicBool::new(false);

/// Exit status of a worker whose current case did not finish within the per-case limit.
pub const HANG_EXIT: i32 = 86;

/// Per-case watchdog: when no case starts or finishes for `limit_s` seconds the process leaves through `on_expire`
/// (cases normally take milliseconds; the limit is two orders of magnitude above the slowest legitimate case).
pub fn start_watchdog(limit_s: u64, on_expire: fn() -> i32) {
    std::thread::spawn(move || {
        let mut last = HEARTBEAT.load(std::sync::atomic::Ordering::Relaxed);
        let mut since = std::time::Instant::now();
        loop {
            std::thread::sleep(std::time::Duration::from_millis(500));
            let now = HEARTBEAT.load(std::sync::atomic::Ordering::Relaxed);
            if now != last || SHRINKING.load(std::sync::atomic::Ordering::Relaxed) {
                last = now;
                since = std::time::Instant::now();
            } else if since.elapsed().as_secs() >= limit_s {
                let code = on_expire();
                std::process::exit(code);
            }
        }
    });
}

pub fn case_limit_s() -> u64 {
    std::env::var("VH_CASE_LIMIT").ok().and_then(|s| s.parse().ok()).unwrap_or(60)
}

/// In trace mode (`VH_TRACE=<file>`, used when a worker died abnormally) every case is written out before it runs,
/// so that the input that aborts the process can be recovered.
pub fn trace_case(unit: &str, case: impl FnOnce() -> Value) {
    beat();
    static PATH: std::sync::OnceLock<Option<String>> = std::sync::OnceLock::new();
    if let Some(p) = PATH.get_or_init(|| std::env::var("VH_TRACE").ok()) {
        let body = serde_json::json!({"unit": unit, "case": case()});
        let _ = std::fs::write(p, serde_json::to_vec(&body).unwrap_or_default());
    }
}

/// Installs a quiet panic hook that remembers message and location of the last panic.
pub fn install_panic_hook() {
    std::panic::set_hook(Box::new(|info| {
        let msg = info
            .payload()
            .downcast_ref::<String>()
            .cloned()
            .or_else(|| info.payload().downcast_ref::<&str>().map(|s| s.to_string()))
            .unwrap_or_else(|| "<non-string panic>".into());
        let loc = info.location().map(|l| format!("{}:{}", l.file(), l.line())).unwrap_or_default();
        *LAST_PANIC.lock().unwrap_or_else(|e| e.into_inner()) = Some(format!("{msg} @ {loc}"));
    }));
}

/// Runs `f`, turning a panic into a `Fail` of class `<prefix>.panic`.
pub fn guarded(prefix: &str, f: impl FnOnce() -> Outcome) -> Outcome {
    match catch_unwind(AssertUnwindSafe(f)) {
        Ok(o) => o,
        Err(_) => {
            let msg = LAST_PANIC.lock().unwrap_or_else(|e| e.into_inner()).take().unwrap_or_default();
            Outcome::failed(Fail::new(&format!("{prefix}.panic"), format!("PANIC: {msg}")))
        }
    }
}

/// Generated search for one job with proptest: runs `cases` cases from `strategy` with a fixed seed,
/// records statistics for every case executed before the first failure, shrinks a failure.
pub fn run_proptest<T, S>(
    unit: &str,
    strategy: S,
    cases: u32,
    seed: u64,
    max_shrink_iters: u32,
    stats: &mut Stats,
    run: impl Fn(&T) -> Outcome,
) -> Option<Failure>
where
    T: Debug + Serialize,
    S: Strategy<Value = T>,
{
    let mut seed_bytes = [0u8; 32];
    for i in 0..4 {
        seed_bytes[i * 8..i * 8 + 8].copy_from_slice(&splitmix64(seed.wrapping_add(i as u64)).to_le_bytes());
    }
    let _ = seed_bytes;
    let mut runner = TestRunner::new(PtConfig {
        cases,
        failure_persistence: None,
        rng_seed: RngSeed::Fixed(seed),
        max_shrink_iters,
        max_global_rejects: 0,
        ..PtConfig::default()
    });
    let failed = std::cell::Cell::new(false);
    let stats_cell = std::cell::RefCell::new(stats);
    let res = runner.run(&strategy, |case| {
        trace_case(unit, || serde_json::to_value(&case).unwrap_or(Value::Null));
        let out = run(&case);
        if !failed.get() {
            let s = serde_json::to_string(&case).unwrap_or_default();
            let h = hash_str(&s);
            stats_cell.borrow_mut().record(|| serde_json::from_str(&s).unwrap_or(Value::Null), h, &out);
        }
        match out.fail {
            None => Ok(()),
            Some(f) => {
                failed.set(true);
                SHRINKING.store(true, std::sync::atomic::Ordering::Relaxed);
                Err(TestCaseError::fail(format!("{}: {}", f.class, f.msg)))
            }
        }
    });
    SHRINKING.store(false, std::sync::atomic::Ordering::Relaxed);
    beat();
    match res {
        Ok(()) => None,
        Err(TestError::Fail(_, case)) => {
            let out = run(&case);
            let fail = out.fail.unwrap_or_else(|| Fail::new("flaky", "shrunk case passed on re-execution"));
            Some(Failure { unit: unit.to_string(), case: serde_json::to_value(&case).unwrap_or(Value::Null), fail })
        }
        Err(TestError::Abort(r)) => Some(Failure {
            unit: unit.to_string(),
            case: Value::Null,
            fail: Fail::new("infra.abort", format!("proptest aborted: {r}")),
        }),
    }
}

/// Monotone index mapping (keeps shrinking effective): maps `raw` in 0..=65535 onto 0..len.
pub fn pick(raw: u16, len: usize) -> usize {
    if len == 0 { 0 } else { ((raw as usize) * len) >> 16 }
}

pub trait Prop: Sync {
    fn id(&self) -> &'static str;
    fn units(&self, tier: Tier) -> Vec<Unit>;
    fn run_unit(&self, unit: &Unit, cases: u32, seed: u64, stats: &mut Stats) -> Option<Failure>;
    /// Re-executes a saved case (bypassing proptest).
    fn replay(&self, unit: &str, case: &Value) -> Outcome;
    fn rule(&self) -> String;
    fn assumptions(&self) -> Vec<String>;
    /// Shard size for splitting a unit over workers.
    fn shard_cases(&self) -> u32 {
        500
    }
}
