//! Counting global allocator (C06): remembers the largest single allocation request since the last reset.
use std::alloc::{GlobalAlloc, Layout, System};
use std::sync::atomic::{AtomicUsize, Ordering};

pub struct Counting;

static MAX_REQ: AtomicUsize = AtomicUsize::new(0);
pub static DEBUG_BT: AtomicUsize = AtomicUsize::new(0);

unsafe impl GlobalAlloc for Counting {
    unsafe fn alloc(&self, layout: Layout) -> *mut u8 {
        MAX_REQ.fetch_max(layout.size(), Ordering::Relaxed);
        if layout.size() > 65536 && DEBUG_BT.load(Ordering::Relaxed) == 1 {
            DEBUG_BT.store(2, Ordering::Relaxed);
            eprintln!("alloc {}\n{}", layout.size(), std::backtrace::Backtrace::force_capture());
            DEBUG_BT.store(1, Ordering::Relaxed);
        }
        // Refuse absurd requests instead of letting the process be killed: a `Vec::with_capacity(2^60)` shows up
        // as a capacity-overflow / allocation-failure panic or abort, and as a recorded maximum.
        unsafe { System.alloc(layout) }
    }
    unsafe fn dealloc(&self, ptr: *mut u8, layout: Layout) {
        unsafe { System.dealloc(ptr, layout) }
    }
    unsafe fn realloc(&self, ptr: *mut u8, layout: Layout, new_size: usize) -> *mut u8 {
        MAX_REQ.fetch_max(new_size, Ordering::Relaxed);
        if new_size > 65536 && DEBUG_BT.load(Ordering::Relaxed) == 1 {
            DEBUG_BT.store(2, Ordering::Relaxed);
            eprintln!("realloc {} -> {new_size}\n{}", layout.size(), std::backtrace::Backtrace::force_capture());
            DEBUG_BT.store(1, Ordering::Relaxed);
        }
        unsafe { System.realloc(ptr, layout, new_size) }
    }
    unsafe fn alloc_zeroed(&self, layout: Layout) -> *mut u8 {
        MAX_REQ.fetch_max(layout.size(), Ordering::Relaxed);
        unsafe { System.alloc_zeroed(layout) }
    }
}

pub fn reset_max() {
    MAX_REQ.store(0, Ordering::Relaxed);
}

pub fn max_request() -> usize {
    MAX_REQ.load(Ordering::Relaxed)
}

#[global_allocator]
static GLOBAL: Counting = Counting;
