//! Simulation engine: one server `App`, 1..3 client `App`s, and a link model owned by the harness.
//!
//! The harness plays the messaging backend and the game: it moves bytes between
//! `RepliconServer`/`RepliconClient` through `drain_sent`/`insert_received`, decides when each side
//! runs a frame and whether the server tick advances. Nothing here reads Replicon's wire format.
pub mod apps;
pub mod generate;
pub mod oracle;
pub mod types;

use std::collections::{BTreeMap, BTreeSet, VecDeque};

use bevy::prelude::*;
use bevy_replicon::prelude::*;
use bevy_replicon::server::server_tick::ServerTick;
use bevy_replicon::shared::backend::channels::RepliconChannels;
use bytes::Bytes;

use crate::common::{Fail, pick};
use apps::*;
pub use types::*;

#[derive(Clone)]
pub struct Msg {
    /// server frame counter (s2c) or client frame counter (c2s) when the message was produced
    pub stamp: u64,
    /// server tick at which the message was produced (s2c only)
    pub tick: u32,
    pub bytes: Bytes,
}

pub struct ClientSim {
    pub app: App,
    pub id: Entity,
    pub connected: bool,
    pub session: u32,
    pub mismatch: bool,
    /// per server channel
    pub s2c: Vec<VecDeque<Msg>>,
    /// per client channel
    pub c2s: Vec<VecDeque<Msg>>,
    pub log_pos: usize,
    pub frames: u64,
    /// Updates messages inserted since the last client frame
    pub upd_inserted: u32,
}

#[derive(Clone, Debug)]
pub struct SEmit {
    pub kind: SK,
    pub seq: u32,
    pub mode: u8,
    pub target: usize,
    pub refent: Option<Entity>,
    /// second trigger target
    pub refent2: Option<Entity>,
    pub must: BTreeSet<usize>,
    pub may: BTreeSet<usize>,
    pub sessions: Vec<u32>,
    pub req_tick: Vec<Option<u32>>,
    pub pending: bool,
    /// the referenced entity was visible+marked for client i when the event left the server
    pub ref_visible: Vec<bool>,
    /// the referenced entity stopped being shown to client i after the emission
    pub ref_broken: Vec<bool>,
}

#[derive(Clone, Debug)]
pub struct CEmit {
    pub kind: CK,
    pub seq: u32,
    pub client: usize,
    pub sender: Entity,
    pub refent: Option<Entity>,
    pub refent2: Option<Entity>,
    pub expect: bool,
    pub emitted: bool,
    pub session: u32,
    /// sent while the client was authorized for the whole life of the message
    pub authorized_at_emit: bool,
}

pub type CompMap = BTreeMap<&'static str, u64>;

pub struct Sim {
    pub cfg: Cfg,
    pub or: Oracles,
    pub server: App,
    pub clients: Vec<ClientSim>,
    pub skinds: Vec<Channel>,
    pub ckinds: Vec<Channel>,
    pub slots: Vec<Option<Entity>>,
    pub marked: Vec<bool>,
    /// per client: hidden slots (blacklist) / visible slots (whitelist)
    pub vis: Vec<BTreeSet<usize>>,
    pub refs: Vec<Option<usize>>,
    pub parents: Vec<Option<usize>>,
    /// per slot: the slot its `OwnedBy` points at
    pub owners: Vec<Option<usize>>,
    /// parent as of the last replicated tick
    pub sent_parents: Vec<Option<usize>>,
    /// parent links some client may still believe in (since the last time every client applied everything)
    pub next_val: u32,
    pub snap_struct: Vec<BTreeMap<u32, BTreeMap<Entity, BTreeSet<&'static str>>>>,
    pub snap_vals: BTreeMap<u32, BTreeMap<Entity, CompMap>>,
    /// creation order of the snapshots (ticks may wrap; order of replication does not)
    pub snap_seq: BTreeMap<u32, u64>,
    pub upd_sent: Vec<BTreeSet<u32>>,
    pub last_update_sent: Vec<u32>,
    pub last_u: Vec<u32>,
    pub last_confirm: Vec<BTreeMap<Entity, u32>>,
    pub fail: Option<Fail>,
    pub locked: Vec<bool>,
    /// per slot: replication run (`repl_epoch`) in which the bundle parts X / Y were inserted
    pub part_epoch: Vec<[Option<u64>; 2]>,
    /// per slot and bundle part: the part was removed while the rule did not match (removal not replicated)
    pub leftover_ok: Vec<[bool; 2]>,
    /// number of server frames in which replication ran
    pub repl_epoch: u64,
    pub prespawned: Vec<Vec<Option<Entity>>>,
    /// per client: server entities for which a mapping was sent (the client may hold such a mapping although the entity
    /// is not, or never was, shown to it: mappings travel independently of visibility)
    pub premapped: Vec<BTreeSet<Entity>>,
    /// per client: client entity -> server entity, as ever seen in its entity map during the current session
    pub hist_map: Vec<BTreeMap<Entity, Entity>>,
    pub sframes: u64,
    pub seq: u32,
    pub semits: Vec<SEmit>,
    pub cemits: Vec<CEmit>,
    pub squeue: Vec<Step>,
    pub server_log_pos: usize,
    pub delivered_s: BTreeMap<(usize, u32), u32>,
    pub delivered_c: BTreeMap<u32, u32>,
    pub flags: BTreeSet<&'static str>,
    pub excluded: BTreeMap<&'static str, u64>,
    /// replication messages (channels 0/1) produced per client since the counter was last reset
    pub repl_msgs: Vec<u64>,
    pub mut_msgs_last_frame: Vec<u32>,
    pub ops_since_tick: u32,
    pub notick_frames_with_ops: u32,
    pub world_ops: u64,
    pub running: bool,
    pub dirty: bool,
    /// per client: tick -> number of mutate messages that left the server / were handed to the client / notifications
    pub mut_sent: Vec<BTreeMap<u32, u32>>,
    /// per client: mutate tick -> update tick the client must have reached before that tick's messages can be applied
    pub mut_req_upd: Vec<BTreeMap<u32, u32>>,
    pub mut_delivered: Vec<BTreeMap<u32, u32>>,
    pub tick_fired: Vec<BTreeMap<u32, u32>>,
    pub tick_log_pos: Vec<usize>,
    /// restrict the convergence oracle to these clients (C06: the attacker's own view is its own business)
    pub converge_only: Option<Vec<usize>>,
    /// largest single allocation request during the last `App::update` of the server (C06)
    pub last_update_max_alloc: usize,
    pub drain_logs: bool,
    /// restrict the per-frame value oracle (C02) to these clients
    pub values_only: Option<Vec<usize>>,
    /// last client-event sequence number seen by server logic per sender
    pub last_from: BTreeMap<Entity, u32>,
    /// (kind, seq, sender) of client events seen by server logic since last cleared (C06)
    pub from_log: Vec<(CK, u32, Entity)>,
    /// the server has not yet run a frame since it was (re)started
    pub need_first_tick: bool,
    /// amount the next manual tick advances the server tick by
    pub next_jump: u32,
    /// `ToWrap` was performed
    pub at_wrap: bool,
    /// ticks advanced since the server (re)started; the harness keys its records by tick value, so one run never
    /// covers a full 2^32 cycle
    pub advanced: u64,
    /// monotone step clock of the harness
    pub clock: u64,
    /// clock value of the last moment at which nothing was in flight or buffered anywhere (see `note_sync`)
    pub last_sync: u64,
    /// per client: true when it has run a frame since the last replication message was queued for it
    pub settled: Vec<bool>,
    /// per slot: clock value at which a reference to it was last REPLACED by a reference to something else (the old
    /// value then only lives in mutate messages, which may still be in flight: finding F23)
    pub ref_replaced_at: Vec<Option<u64>>,
}

/// 8 secret bytes derived from the write id (high bit set in every byte), followed by padding.
pub fn secret(v: u32, extra: usize) -> Vec<u8> {
    let mut out = Vec::new();
    let x = (v as u64).wrapping_mul(0x9E37_79B9_7F4A_7C15) | 0x8080_8080_8080_8080;
    out.extend_from_slice(&x.to_le_bytes());
    out.extend(std::iter::repeat(7u8).take(extra));
    out
}

impl Sim {
    pub fn new(cfg: &Cfg, or: Oracles) -> Self {
        let cfg = cfg.clone();
        let n = cfg.clients;
        let slots = cfg.slots;
        let mut server = make_app_role(&cfg, false, if cfg.split_plugins { Role::Server } else { Role::Both });
        for _ in 0..cfg.entity_offset {
            server.world_mut().spawn_empty();
        }
        let ch = server.world().resource::<RepliconChannels>().clone();
        let skinds = ch.server_channels().to_vec();
        let ckinds = ch.client_channels().to_vec();
        let mut clients = Vec::new();
        for i in 0..n {
            let mismatch = cfg.auth == 2 && cfg.mismatch & (1 << i) != 0;
            let mut app = make_app_role(&cfg, mismatch, if cfg.split_plugins { Role::Client } else { Role::Both });
            if cfg.entity_offset > 0 {
                for _ in 0..(cfg.entity_offset as usize + 37 * (i + 1)) % 8300 {
                    app.world_mut().spawn_empty();
                }
            }
            clients.push(ClientSim {
                app,
                id: Entity::PLACEHOLDER,
                connected: false,
                session: 0,
                mismatch,
                s2c: vec![VecDeque::new(); skinds.len()],
                c2s: vec![VecDeque::new(); ckinds.len()],
                log_pos: 0,
                frames: 0,
                upd_inserted: 0,
            });
        }
        server.world_mut().resource_mut::<RepliconServer>().set_running(true);
        let mut sim = Sim {
            cfg,
            or,
            server,
            clients,
            skinds,
            ckinds,
            slots: vec![None; slots],
            marked: vec![false; slots],
            vis: vec![BTreeSet::new(); n],
            refs: vec![None; slots],
            parents: vec![None; slots],
            owners: vec![None; slots],
            sent_parents: vec![None; slots],
            next_val: 1,
            snap_struct: vec![BTreeMap::new(); n],
            snap_vals: BTreeMap::new(),
            snap_seq: BTreeMap::new(),
            upd_sent: vec![BTreeSet::new(); n],
            last_update_sent: vec![0; n],
            last_u: vec![0; n],
            last_confirm: vec![BTreeMap::new(); n],
            fail: None,
            locked: vec![false; slots],
            part_epoch: vec![[None, None]; slots],
            leftover_ok: vec![[false, false]; slots],
            repl_epoch: 0,
            prespawned: vec![vec![None; slots]; n],
            premapped: vec![BTreeSet::new(); n],
            hist_map: vec![BTreeMap::new(); n],
            sframes: 0,
            seq: 0,
            semits: Vec::new(),
            cemits: Vec::new(),
            squeue: Vec::new(),
            server_log_pos: 0,
            delivered_s: BTreeMap::new(),
            delivered_c: BTreeMap::new(),
            flags: BTreeSet::new(),
            excluded: BTreeMap::new(),
            repl_msgs: vec![0; n],
            mut_msgs_last_frame: vec![0; n],
            ops_since_tick: 0,
            notick_frames_with_ops: 0,
            world_ops: 0,
            running: true,
            dirty: false,
            mut_sent: vec![BTreeMap::new(); n],
            mut_req_upd: vec![BTreeMap::new(); n],
            mut_delivered: vec![BTreeMap::new(); n],
            tick_fired: vec![BTreeMap::new(); n],
            tick_log_pos: vec![0; n],
            converge_only: None,
            last_update_max_alloc: 0,
            drain_logs: false,
            values_only: None,
            last_from: BTreeMap::new(),
            from_log: Vec::new(),
            need_first_tick: true,
            next_jump: 1,
            at_wrap: false,
            advanced: 0,
            clock: 1,
            last_sync: 0,
            settled: vec![true; n],
            ref_replaced_at: vec![None; slots],
        };
        if sim.cfg.start_tick != 0 && sim.cfg.policy == 0 {
            sim.server.world_mut().resource_mut::<ServerTick>().increment_by(sim.cfg.start_tick);
        }
        sim.warm_up();
        sim
    }

    /// F15 exclusion: the first replication of a running server happens at tick >= 1, before any client connects.
    fn warm_up(&mut self) {
        // Manual: the first running frame increments the tick (see `server_frame`); EveryFrame: the library does.
        // Only the timer-driven policy would replicate at tick 0 in its first running frame.
        if self.cfg.no_exclusions || self.cfg.policy != 2 {
            return;
        }
        for _ in 0..8 {
            if !self.need_first_tick && self.tick() != self.cfg.start_tick {
                break;
            }
            self.server_frame(true);
        }
    }

    pub fn tick(&self) -> u32 {
        self.server.world().resource::<ServerTick>().get()
    }

    pub fn fail(&mut self, class: &str, msg: String) {
        if self.fail.is_none() {
            self.fail = Some(Fail::new(class, msg));
        }
    }

    pub fn exclude(&mut self, what: &'static str) {
        *self.excluded.entry(what).or_default() += 1;
    }

    fn val(&mut self) -> u32 {
        self.next_val += 1;
        self.next_val
    }

    pub fn authorized(&self, i: usize) -> bool {
        let c = &self.clients[i];
        c.connected && self.server.world().get_entity(c.id).is_ok_and(|e| e.contains::<AuthorizedClient>())
    }

    pub fn visible_to(&self, c: usize, slot: usize) -> bool {
        match self.cfg.vis {
            0 => true,
            1 => !self.vis[c].contains(&slot),
            _ => self.vis[c].contains(&slot),
        }
    }

    fn insert_k(&mut self, e: Entity, k: K) {
        let v = self.val();
        let big = self.cfg.big;
        let mut em = self.server.world_mut().entity_mut(e);
        match k {
            K::A => {
                em.insert(A(v));
            }
            K::B => {
                em.insert(B(v));
            }
            K::C => {
                em.insert(C(v, secret(v, if big { 8 + ((v * 13) % 40) as usize } else { 0 })));
            }
            K::O => {
                em.insert(O(v));
            }
            K::P => {
                em.insert(P(v));
            }
            K::S => {
                em.insert(S(v));
            }
            K::X => {
                em.insert(X(v));
            }
            K::Y => {
                em.insert(Y(v));
            }
            K::Z => {
                em.insert(Z);
            }
        }
    }

    pub fn has_k(&self, e: Entity, k: K) -> bool {
        let w = self.server.world();
        match k {
            K::A => w.get::<A>(e).is_some(),
            K::B => w.get::<B>(e).is_some(),
            K::C => w.get::<C>(e).is_some(),
            K::O => w.get::<O>(e).is_some(),
            K::P => w.get::<P>(e).is_some(),
            K::S => w.get::<S>(e).is_some(),
            K::X => w.get::<X>(e).is_some(),
            K::Y => w.get::<Y>(e).is_some(),
            K::Z => w.get::<Z>(e).is_some(),
        }
    }

    fn mutate_k(&mut self, e: Entity, k: K) {
        let v = self.val();
        let w = self.server.world_mut();
        match k {
            K::A => {
                if let Some(mut c) = w.get_mut::<A>(e) {
                    c.0 = v;
                }
            }
            K::B => {
                if w.get::<B>(e).is_some() {
                    w.entity_mut(e).insert(B(v));
                }
            }
            K::C => {
                if let Some(mut c) = w.get_mut::<C>(e) {
                    c.0 = v;
                    let extra = c.1.len().saturating_sub(8);
                    c.1 = secret(v, extra);
                }
            }
            K::O => {
                if let Some(mut c) = w.get_mut::<O>(e) {
                    c.0 = v;
                }
            }
            K::P => {
                if let Some(mut c) = w.get_mut::<P>(e) {
                    c.0 = v;
                }
            }
            K::S => {
                if let Some(mut c) = w.get_mut::<S>(e) {
                    c.0 = v;
                }
            }
            K::X => {
                if let Some(mut c) = w.get_mut::<X>(e) {
                    c.0 = v;
                }
            }
            K::Y => {
                if let Some(mut c) = w.get_mut::<Y>(e) {
                    c.0 = v;
                }
            }
            K::Z => {
                if let Some(mut c) = w.get_mut::<Z>(e) {
                    // nothing to change in a zero-sized value: mark it changed, as `DerefMut` would
                    c.set_changed();
                }
            }
        }
    }

    fn touch_k(&mut self, e: Entity, k: K) {
        let w = self.server.world_mut();
        macro_rules! touch {
            ($t:ty) => {
                if let Some(mut c) = w.get_mut::<$t>(e) {
                    c.set_changed();
                }
            };
        }
        match k {
            K::A => touch!(A),
            K::B => {}
            K::C => touch!(C),
            K::O => touch!(O),
            K::P => touch!(P),
            K::S => touch!(S),
            K::X => touch!(X),
            K::Y => touch!(Y),
            K::Z => touch!(Z),
        }
    }

    fn remove_k(&mut self, e: Entity, k: K) {
        let mut em = self.server.world_mut().entity_mut(e);
        match k {
            K::A => {
                em.remove::<A>();
            }
            K::B => {
                em.remove::<B>();
            }
            K::C => {
                em.remove::<C>();
            }
            K::O => {
                em.remove::<O>();
            }
            K::P => {
                em.remove::<P>();
            }
            K::S => {
                em.remove::<S>();
            }
            K::X => {
                em.remove::<X>();
            }
            K::Y => {
                em.remove::<Y>();
            }
            K::Z => {
                em.remove::<Z>();
            }
        }
    }

    /// Generator precondition: no dangling references. Drop references to `slot` before it stops being replicated.
    fn unref(&mut self, slot: usize) {
        for s in 0..self.slots.len() {
            if self.refs[s] == Some(slot) {
                if let Some(e) = self.slots[s] {
                    if let Ok(mut em) = self.server.world_mut().get_entity_mut(e) {
                        em.remove::<R>();
                    }
                }
                self.refs[s] = None;
            }
            if self.owners[s] == Some(slot) {
                if let Some(e) = self.slots[s] {
                    if let Ok(mut em) = self.server.world_mut().get_entity_mut(e) {
                        em.remove::<OwnedBy>();
                    }
                }
                self.owners[s] = None;
            }
        }
    }

    /// Bevy despawns children recursively; mirror that in the slot table.
    fn resync_slots(&mut self) {
        for s in 0..self.slots.len() {
            if let Some(e) = self.slots[s] {
                if self.server.world().get_entity(e).is_err() {
                    self.unref(s);
                    self.break_refs(e, None);
                    self.slots[s] = None;
                    self.marked[s] = false;
                    self.refs[s] = None;
                    self.parents[s] = None;
                    self.owners[s] = None;
                    self.locked[s] = false;
                    for v in &mut self.vis {
                        v.remove(&s);
                    }
                    for p in &mut self.prespawned {
                        p[s] = None;
                    }
                }
            }
        }
        for s in 0..self.slots.len() {
            if let Some(p) = self.parents[s] {
                if self.slots[p].is_none() {
                    self.parents[s] = None;
                }
            }
        }
    }

    /// F17 exclusion: despawning `slot` (and, recursively, its present descendants) while some entity that survives is
    /// still believed by clients to hang below one of them: the client's own recursive despawn would kill it.
    fn has_stale_child(&self, slot: usize) -> bool {
        fn closure(par: &[Option<usize>], roots: &BTreeSet<usize>) -> BTreeSet<usize> {
            let mut out = roots.clone();
            loop {
                let before = out.len();
                for s in 0..par.len() {
                    if let Some(p) = par[s] {
                        if out.contains(&p) {
                            out.insert(s);
                        }
                    }
                }
                if out.len() == before {
                    break;
                }
            }
            out
        }
        let dying = closure(&self.parents, &[slot].into());
        let believed = closure(&self.sent_parents, &dying);
        believed.iter().any(|s| self.slots[*s].is_some() && !dying.contains(s))
    }

    /// F23 exclusion: a reference to `slot` was replaced by another value and the old value may still travel in (or wait
    /// in a client's buffer as) a mutate message. Also covers entities that would be despawned recursively with `slot`.
    fn old_reference_may_be_in_flight(&self, slot: usize) -> bool {
        if self.cfg.no_exclusions || !(self.cfg.refs || self.cfg.owners) {
            return false;
        }
        let mut dying: BTreeSet<usize> = [slot].into();
        loop {
            let before = dying.len();
            for s in 0..self.parents.len() {
                if let Some(p) = self.parents[s] {
                    if dying.contains(&p) {
                        dying.insert(s);
                    }
                }
            }
            if dying.len() == before {
                break;
            }
        }
        dying.iter().any(|s| self.ref_replaced_at[*s].is_some_and(|t| t >= self.last_sync))
    }

    /// every connected client must get an update message at the new tick: at least one replicated entity visible to all
    /// (profiles with big jumps run without visibility lists)
    fn can_hop(&self) -> bool {
        let nslots = self.slots.len();
        // (a connected client that is not authorized receives nothing: its tick state would stay behind by the whole jump,
        // which is the situation of finding F15 / the connect exclusion)
        self.cfg.vis == 0
            && (0..self.clients.len()).all(|i| !self.clients[i].connected || self.authorized(i))
            && (0..nslots).any(|s| self.slots[s].is_some() && self.marked[s] && !(self.cfg.periodic && self.entity_has_p(s)))
    }

    /// Everybody in sync, advance the server tick by `by` (< 2^31) in one tick frame in which every replicated entity
    /// gets a structural change - so every client-side confirmed tick, the update ticks and the trackers move along
    /// (ticks 2^31 or more apart are never compared) -, everybody in sync again.
    fn hop(&mut self, by: impl Fn(u32) -> u32) {
        let nslots = self.slots.len();
        for _ in 0..3 {
            self.lockstep_round();
        }
        // (the amount is computed from the tick reached after the rounds above)
        self.next_jump = by(self.tick()).max(1);
        for slot in 0..nslots {
            if self.slots[slot].is_some() && self.marked[slot] {
                let has = self.slots[slot].is_some_and(|e| self.has_k(e, K::S));
                if self.cfg.periodic && self.entity_has_p(slot) {
                    continue;
                }
                self.step(&if has { Step::Remove { slot, k: K::S } } else { Step::Insert { slot, k: K::S } });
            }
        }
        let before = self.tick();
        self.server_frame(true);
        if (self.tick() as u64) < before as u64 {
            self.flags.insert("crossed_tick_wrap");
        }
        self.flags.insert("big_jump");
        for _ in 0..3 {
            self.lockstep_round();
        }
    }

    fn entity_has_p(&self, slot: usize) -> bool {
        self.slots[slot].is_some_and(|e| self.server.world().get::<P>(e).is_some())
    }

    pub fn connect(&mut self, i: usize) {
        if i >= self.clients.len() || self.clients[i].connected || !self.running {
            return;
        }
        // F15 (second form): a fresh client believes "update tick 0"; a server whose tick is 2^31 or more ahead of 0
        // looks older than that to it. Only reachable with tick jumps.
        if self.tick() >= (1 << 31) - (1 << 20) && !self.cfg.no_exclusions {
            return self.exclude("F15_connect_when_server_tick_is_half_range_ahead_of_zero");
        }
        let max = self.cfg.max_size.get(i).copied().unwrap_or(1200);
        let id = self.server.world_mut().spawn(ConnectedClient { max_size: max }).id();
        let c = &mut self.clients[i];
        c.id = id;
        c.connected = true;
        c.session += 1;
        c.app.world_mut().resource_mut::<RepliconClient>().set_status(RepliconClientStatus::Connected);
        self.last_update_sent[i] = 0;
        if self.world_ops > 0 {
            self.flags.insert("late_joiner");
        }
        // The backend changes the status inside a frame, before game logic can do anything.
        self.client_frame(i);
    }

    pub fn authorize(&mut self, i: usize) {
        if self.cfg.auth != 1 || i >= self.clients.len() || !self.clients[i].connected || self.authorized(i) {
            return;
        }
        // under custom authorization the mismatch mask names clients the game never authorizes
        if self.cfg.mismatch & (1 << i) != 0 {
            return;
        }
        let id = self.clients[i].id;
        self.server.world_mut().entity_mut(id).insert(AuthorizedClient);
    }

    pub fn disconnect(&mut self, i: usize) {
        self.disconnect_with(i, false)
    }

    pub fn disconnect_with(&mut self, i: usize, late: bool) {
        if i >= self.clients.len() || !self.clients[i].connected {
            return;
        }
        if late {
            for ch in 0..self.ckinds.len() {
                while self.deliver_c2s(i, ch, 0) {}
            }
            self.flags.insert("disconnect_with_messages_just_received");
        }
        {
            let c = &self.clients[i];
            if c.s2c[0].len() > 0 {
                self.flags.insert("disc_updates_in_flight");
            }
            if c.s2c[1].len() > 0 {
                self.flags.insert("disc_mutations_in_flight");
            }
            if c.c2s[0].len() > 0 {
                self.flags.insert("disc_acks_in_flight");
            }
            if c.s2c[2..].iter().any(|q| !q.is_empty()) || c.c2s[1..].iter().any(|q| !q.is_empty()) {
                self.flags.insert("disc_events_in_flight");
            }
            if self.ops_since_tick > 0 {
                self.flags.insert("disc_changes_buffered_on_server");
            }
        }
        let id = self.clients[i].id;
        let c = &mut self.clients[i];
        c.connected = false;
        c.app.world_mut().resource_mut::<RepliconClient>().set_status(RepliconClientStatus::Disconnected);
        if let Ok(em) = self.server.world_mut().get_entity_mut(id) {
            em.despawn();
        }
        for q in &mut c.s2c {
            q.clear();
        }
        for q in &mut c.c2s {
            q.clear();
        }
        c.app.world_mut().resource_mut::<CEmitQueue>().0.clear();
        // at least one frame on both sides before a reconnect (the property's own precondition)
        c.app.update();
        c.frames += 1;
        let _ = c.app.world_mut().resource_mut::<RepliconClient>().drain_sent().count();
        // The game's job: `ClientSet::Reset` clears the entity map but leaves entities to the application.
        let old: Vec<Entity> = c.app.world_mut().query_filtered::<Entity, With<Replicated>>().iter(c.app.world()).collect();
        for o in old {
            if let Ok(em) = c.app.world_mut().get_entity_mut(o) {
                em.despawn();
            }
        }
        c.log_pos = c.app.world().resource::<ClientLog>().0.len();
        c.upd_inserted = 0;
        self.vis[i].clear();
        for p in self.prespawned[i].iter_mut() {
            *p = None;
        }
        self.premapped[i].clear();
        self.hist_map[i].clear();
        self.last_u[i] = 0;
        self.last_confirm[i].clear();
        self.snap_struct[i].clear();
        self.upd_sent[i].clear();
        self.mut_sent[i].clear();
        self.mut_req_upd[i].clear();
        self.mut_delivered[i].clear();
        self.tick_fired[i].clear();
        self.tick_log_pos[i] = self.clients[i].app.world().resource::<TickLog>().0.len();
        for e in &mut self.semits {
            if e.pending {
                e.must.remove(&i);
                e.may.remove(&i);
            }
        }
        if self.running {
            self.server_frame(false);
        }
    }

    /// A moment at which every change has been replicated, every replication message was handed over or lost, and every
    /// client has run a frame since: no older message can still arrive anywhere.
    fn note_sync(&mut self) {
        if self.ops_since_tick == 0
            && (0..self.clients.len()).all(|c| !self.clients[c].connected || (self.settled[c] && self.clients[c].s2c[0].is_empty() && self.clients[c].s2c[1].is_empty()))
        {
            self.last_sync = self.clock;
        }
    }

    pub fn step(&mut self, st: &Step) {
        self.clock += 1;
        let nslots = self.slots.len();
        let nclients = self.clients.len();
        match *st {
            Step::Spawn { slot, marked, ref comps } => {
                if slot >= nslots || self.slots[slot].is_some() {
                    return;
                }
                let e = self.server.world_mut().spawn_empty().id();
                self.part_epoch[slot] = [None, None];
                self.leftover_ok[slot] = [false, false];
                for &k in comps {
                    if k == K::P && !self.cfg.periodic {
                        continue;
                    }
                    if matches!(k, K::X | K::Y) {
                        if !self.cfg.bundle {
                            continue;
                        }
                        self.part_epoch[slot][(k == K::Y) as usize] = Some(self.repl_epoch);
                    }
                    self.insert_k(e, k);
                }
                if marked {
                    self.server.world_mut().entity_mut(e).insert(Replicated);
                }
                self.slots[slot] = Some(e);
                self.marked[slot] = marked;
                self.ref_replaced_at[slot] = None;
                self.op();
            }
            Step::Despawn { slot } => {
                if slot >= nslots {
                    return;
                }
                let Some(e) = self.slots[slot] else { return };
                if self.locked[slot] && !self.cfg.no_exclusions {
                    return self.exclude("F20_locked_slot");
                }
                if self.has_stale_child(slot) && !self.cfg.no_exclusions {
                    return self.exclude("F17_parent_despawn_with_stale_descendant");
                }
                if self.old_reference_may_be_in_flight(slot) {
                    return self.exclude("F23_despawn_while_a_replaced_reference_to_it_may_still_be_in_flight");
                }
                self.unref(slot);
                self.break_refs(e, None);
                self.server.world_mut().entity_mut(e).despawn();
                self.slots[slot] = None;
                self.marked[slot] = false;
                self.refs[slot] = None;
                self.parents[slot] = None;
                self.owners[slot] = None;
                for v in &mut self.vis {
                    v.remove(&slot);
                }
                for p in &mut self.prespawned {
                    p[slot] = None;
                }
                self.resync_slots();
                self.op();
            }
            Step::Marker { slot, on } => {
                if slot >= nslots {
                    return;
                }
                let Some(e) = self.slots[slot] else { return };
                if on == self.marked[slot] {
                    return;
                }
                if self.locked[slot] && !self.cfg.no_exclusions {
                    return self.exclude("F20_locked_slot");
                }
                if on {
                    self.server.world_mut().entity_mut(e).insert(Replicated);
                } else {
                    if self.cfg.vis != 0 && !self.cfg.no_exclusions {
                        return self.exclude("F14_marker_off_under_visibility_list");
                    }
                    if (self.has_stale_child(slot) || (0..nslots).any(|s| self.parents[s] == Some(slot))) && !self.cfg.no_exclusions {
                        return self.exclude("F17_parent_despawn_with_stale_descendant");
                    }
                    if self.old_reference_may_be_in_flight(slot) {
                        return self.exclude("F23_despawn_while_a_replaced_reference_to_it_may_still_be_in_flight");
                    }
                    self.unref(slot);
                    for p in &mut self.prespawned {
                        p[slot] = None;
                    }
                    self.break_refs(e, None);
                    self.server.world_mut().entity_mut(e).remove::<Replicated>();
                }
                self.marked[slot] = on;
                self.op();
            }
            Step::Remark { slot } => {
                if slot >= nslots || !self.marked[slot] {
                    return;
                }
                let Some(e) = self.slots[slot] else { return };
                self.server.world_mut().entity_mut(e).insert(Replicated);
                self.flags.insert("marker_inserted_again");
            }
            Step::Insert { slot, k } => {
                if slot >= nslots {
                    return;
                }
                let Some(e) = self.slots[slot] else { return };
                if k == K::P && !self.cfg.periodic {
                    return;
                }
                if self.cfg.periodic && (self.entity_has_p(slot) || k == K::P) && !self.cfg.no_exclusions {
                    return self.exclude("F4_other_change_on_entity_with_periodic_component");
                }
                if matches!(k, K::X | K::Y) {
                    if !self.cfg.bundle {
                        return;
                    }
                    let me = (k == K::Y) as usize;
                    if !self.has_k(e, k) {
                        let partner = if k == K::X { K::Y } else { K::X };
                        // F24: a bundle completed in a later replication run than the one that saw its other part
                        if self.has_k(e, partner) && self.part_epoch[slot][1 - me] != Some(self.repl_epoch) {
                            if !self.cfg.no_exclusions {
                                return self.exclude("F24_bundle_completed_in_a_later_tick");
                            }
                            self.flags.insert("bundle_completed_later");
                        }
                        self.part_epoch[slot][me] = Some(self.repl_epoch);
                        self.leftover_ok[slot][me] = false;
                    }
                }
                self.insert_k(e, k);
                self.op();
            }
            Step::Remove { slot, k } => {
                if slot >= nslots {
                    return;
                }
                let Some(e) = self.slots[slot] else { return };
                if self.cfg.periodic && self.entity_has_p(slot) && !self.cfg.no_exclusions {
                    return self.exclude("F4_other_change_on_entity_with_periodic_component");
                }
                if matches!(k, K::X | K::Y) {
                    if !self.cfg.bundle || !self.has_k(e, k) {
                        return;
                    }
                    let me = (k == K::Y) as usize;
                    self.part_epoch[slot][me] = None;
                    // the rule matched before the removal only if the other part is there: otherwise the removal is not
                    // replicated and a client may keep what it had
                    if !self.has_k(e, if k == K::X { K::Y } else { K::X }) {
                        self.leftover_ok[slot][me] = true;
                    }
                }
                self.remove_k(e, k);
                self.op();
            }
            Step::Mutate { slot, k } => {
                if slot >= nslots {
                    return;
                }
                let Some(e) = self.slots[slot] else { return };
                if k == K::P && !self.cfg.periodic {
                    return;
                }
                if matches!(k, K::X | K::Y) && !self.cfg.bundle {
                    return;
                }
                if self.cfg.periodic && self.entity_has_p(slot) && k != K::P && !self.cfg.no_exclusions {
                    return self.exclude("F4_other_change_on_entity_with_periodic_component");
                }
                if self.has_k(e, k) {
                    self.mutate_k(e, k);
                    self.op();
                }
            }
            Step::MutateAll { k } => {
                for slot in 0..nslots {
                    self.step(&Step::Mutate { slot, k });
                }
            }
            Step::Resize { slot, len } => {
                if slot >= nslots {
                    return;
                }
                let Some(e) = self.slots[slot] else { return };
                let v = self.val();
                if let Some(mut c) = self.server.world_mut().get_mut::<C>(e) {
                    c.0 = v;
                    c.1 = secret(v, len as usize);
                    self.op();
                }
            }
            Step::SetRef { slot, target } => {
                if !self.cfg.refs || slot >= nslots || target >= nslots {
                    return;
                }
                let (Some(e), Some(t)) = (self.slots[slot], self.slots[target]) else { return };
                if !self.marked[target] {
                    return;
                }
                // generator soundness: the target is visible to every client that can see the referrer
                if self.cfg.vis != 0 && (0..nclients).any(|c| self.clients[c].connected && self.visible_to(c, slot) && !self.visible_to(c, target)) {
                    return self.exclude("reference_to_entity_hidden_from_a_viewer");
                }
                if self.cfg.periodic && self.entity_has_p(slot) && !self.cfg.no_exclusions {
                    return self.exclude("F4_other_change_on_entity_with_periodic_component");
                }
                if let Some(old) = self.refs[slot] {
                    if old != target {
                        self.ref_replaced_at[old] = Some(self.clock);
                    }
                }
                self.server.world_mut().entity_mut(e).insert(R(t));
                self.refs[slot] = Some(target);
                self.op();
            }
            Step::DelRef { slot } => {
                if slot >= nslots {
                    return;
                }
                let Some(e) = self.slots[slot] else { return };
                if self.refs[slot].is_none() {
                    return;
                }
                if self.cfg.periodic && self.entity_has_p(slot) && !self.cfg.no_exclusions {
                    return self.exclude("F4_other_change_on_entity_with_periodic_component");
                }
                self.server.world_mut().entity_mut(e).remove::<R>();
                self.refs[slot] = None;
                self.op();
            }
            Step::SetParent { slot, parent } => {
                if !self.cfg.children || slot >= nslots || parent >= slot {
                    return;
                }
                let (Some(e), Some(p)) = (self.slots[slot], self.slots[parent]) else { return };
                if !self.marked[parent] {
                    return;
                }
                // generator soundness under visibility lists: a client that sees an entity sees its parent
                // (hiding a parent from a client that still sees a child would make the client's own recursive despawn
                // remove the child: finding family F17)
                if self.cfg.vis != 0 && !self.cfg.children_any_vis && (0..nclients).any(|c| self.clients[c].connected && self.visible_to(c, slot) && !self.visible_to(c, parent)) {
                    return self.exclude("child_visible_without_its_parent");
                }
                if self.parents[slot].is_some() && !self.cfg.no_exclusions {
                    return self.exclude("F17b_direct_reparent");
                }
                if self.cfg.periodic && self.entity_has_p(slot) && !self.cfg.no_exclusions {
                    return self.exclude("F4_other_change_on_entity_with_periodic_component");
                }
                self.server.world_mut().entity_mut(e).insert(ChildOf(p));
                self.parents[slot] = Some(parent);
                self.op();
            }
            Step::DelParent { slot } => {
                if slot >= nslots {
                    return;
                }
                let Some(e) = self.slots[slot] else { return };
                if self.parents[slot].is_none() {
                    return;
                }
                if self.cfg.periodic && self.entity_has_p(slot) && !self.cfg.no_exclusions {
                    return self.exclude("F4_other_change_on_entity_with_periodic_component");
                }
                self.server.world_mut().entity_mut(e).remove::<ChildOf>();
                self.parents[slot] = None;
                self.op();
            }
            Step::SetOwner { slot, owner } => {
                if !self.cfg.owners || slot >= nslots || owner >= nslots || owner == slot {
                    return;
                }
                let (Some(e), Some(o)) = (self.slots[slot], self.slots[owner]) else { return };
                if !self.marked[owner] {
                    return;
                }
                if self.cfg.vis != 0 && !self.cfg.children_any_vis && (0..nclients).any(|c| self.clients[c].connected && self.visible_to(c, slot) && !self.visible_to(c, owner)) {
                    return self.exclude("reference_to_entity_hidden_from_a_viewer");
                }
                if self.cfg.periodic && self.entity_has_p(slot) && !self.cfg.no_exclusions {
                    return self.exclude("F4_other_change_on_entity_with_periodic_component");
                }
                if let Some(old) = self.owners[slot] {
                    if old != owner {
                        // a replaced reference travels as a mutation (finding F23)
                        self.ref_replaced_at[old] = Some(self.clock);
                        self.flags.insert("owner_replaced");
                    }
                }
                self.server.world_mut().entity_mut(e).insert(OwnedBy(o));
                self.owners[slot] = Some(owner);
                self.flags.insert("second_relationship");
                self.op();
            }
            Step::DelOwner { slot } => {
                if slot >= nslots {
                    return;
                }
                let Some(e) = self.slots[slot] else { return };
                if self.owners[slot].is_none() {
                    return;
                }
                if self.cfg.periodic && self.entity_has_p(slot) && !self.cfg.no_exclusions {
                    return self.exclude("F4_other_change_on_entity_with_periodic_component");
                }
                self.server.world_mut().entity_mut(e).remove::<OwnedBy>();
                self.owners[slot] = None;
                self.op();
            }
            Step::PreSpawn { client, slot, kill, gap, early, refer } => {
                if !self.cfg.prespawn || client >= nclients || slot >= nslots || !self.clients[client].connected {
                    return;
                }
                if self.slots[slot].is_some() {
                    return;
                }
                let id = self.clients[client].id;
                if !self.authorized(client) {
                    // Custom authorization: "if you want to map entities before enabling replication, you need to insert
                    // this component, already filled with entities" - the game prepares the map, authorizes later.
                    if self.cfg.auth != 1 || self.cfg.vis == 2 {
                        return;
                    }
                    if self.server.world().get::<ClientEntityMap>(id).is_none() {
                        self.server.world_mut().entity_mut(id).insert(ClientEntityMap::default());
                    }
                    self.flags.insert("mapping_prepared_before_authorization");
                }
                let local = self.clients[client].app.world_mut().spawn_empty().id();
                let e = if early && self.cfg.vis != 2 {
                    // not replicated yet: a later `Marker{on}` makes it visible
                    self.server.world_mut().spawn_empty().id()
                } else {
                    self.server.world_mut().spawn(Replicated).id()
                };
                self.insert_k(e, K::A);
                self.slots[slot] = Some(e);
                self.marked[slot] = !(early && self.cfg.vis != 2);
                self.locked[slot] = true;
                if self.cfg.vis == 2 && !early {
                    self.server.world_mut().get_mut::<ClientVisibility>(id).unwrap().set_visibility(e, true);
                    self.vis[client].insert(slot);
                }
                if early {
                    self.flags.insert("prespawn_mapping_before_first_visibility");
                }
                self.op();
                // (a tick-less frame is only possible once the first running frame has incremented the tick)
                if gap && self.cfg.policy == 0 && !self.need_first_tick {
                    // the mapping is registered in a later frame of the same tick window
                    self.flags.insert("prespawn_mapping_in_later_frame");
                    self.server_frame(false);
                }
                self.server.world_mut().get_mut::<ClientEntityMap>(id).unwrap().insert(e, local);
                self.premapped[client].insert(e);
                if kill {
                    self.clients[client].app.world_mut().entity_mut(local).despawn();
                    self.flags.insert("prespawn_killed");
                } else {
                    self.prespawned[client][slot] = Some(local);
                    self.flags.insert("prespawn");
                }
                if let Some(r) = refer {
                    if self.cfg.refs && r < nslots && r != slot && self.slots[r].is_some() {
                        if self.refs[r].is_some() {
                            self.flags.insert("prespawn_referenced_by_mutation_in_same_tick");
                        }
                        self.step(&Step::SetRef { slot: r, target: slot });
                    }
                }
            }
            Step::Vis { client, slot, visible } => {
                if self.cfg.vis == 0 || client >= nclients || slot >= nslots || !self.authorized(client) {
                    return;
                }
                let Some(e) = self.slots[slot] else { return };
                if self.locked[slot] && !self.cfg.no_exclusions {
                    return self.exclude("F20_locked_slot");
                }
                if self.cfg.children && !self.cfg.children_any_vis {
                    // keep "who sees an entity sees its parent" true
                    let hides_parent = !visible && (0..nslots).any(|ch| self.parents[ch] == Some(slot) && self.slots[ch].is_some() && self.visible_to(client, ch));
                    let believed_child = !visible && (0..nslots).any(|ch| self.sent_parents[ch] == Some(slot) && self.slots[ch].is_some() && self.visible_to(client, ch));
                    // (also the parent the clients still BELIEVE in: a detach travels with the next tick, and a client that is
                    // told to drop that parent in the same tick takes the re-shown child with it - finding F17a)
                    let shows_child = visible && (self.parents[slot].is_some_and(|p| !self.visible_to(client, p)) || self.sent_parents[slot].is_some_and(|p| self.slots[p].is_some() && !self.visible_to(client, p)));
                    if hides_parent || believed_child || shows_child {
                        return self.exclude("child_visible_without_its_parent");
                    }
                }
                if !visible && self.old_reference_may_be_in_flight(slot) {
                    return self.exclude("F23_despawn_while_a_replaced_reference_to_it_may_still_be_in_flight");
                }
                if self.cfg.refs || (self.cfg.owners && !self.cfg.children_any_vis) {
                    // keep "target visible to whoever sees the referrer" true
                    let hides_target = !visible && (0..nslots).any(|r| (self.refs[r] == Some(slot) || self.owners[r] == Some(slot)) && self.slots[r].is_some() && self.visible_to(client, r));
                    let shows_referrer = visible && (self.refs[slot].is_some_and(|t| !self.visible_to(client, t)) || self.owners[slot].is_some_and(|t| !self.visible_to(client, t)));
                    if hides_target || shows_referrer {
                        return self.exclude("reference_to_entity_hidden_from_a_viewer");
                    }
                }
                let id = self.clients[client].id;
                self.server.world_mut().get_mut::<ClientVisibility>(id).unwrap().set_visibility(e, visible);
                if !visible {
                    // An adoption stops being current when the server hides an entity the client was shown;
                    // while the mapping is still pending (locked slot, only reachable in the F20 replay) it stays current.
                    if !self.locked[slot] {
                        self.prespawned[client][slot] = None;
                    }
                    self.break_refs(e, Some(client));
                }
                let in_list = if self.cfg.vis == 1 { !visible } else { visible };
                if in_list {
                    self.vis[client].insert(slot);
                } else {
                    self.vis[client].remove(&slot);
                }
                self.op();
                self.flags.insert("vis_change");
            }
            Step::VisBurst { client, slot, ref pattern } => {
                for &visible in pattern {
                    self.step(&Step::Vis { client, slot, visible });
                }
                if pattern.len() >= 2 {
                    self.flags.insert("vis_burst");
                }
            }
            Step::EmitS { .. } => {
                if self.cfg.events {
                    self.squeue.push(st.clone());
                }
            }
            Step::EmitC { client, kind, refslot, refslot2 } => {
                if !self.cfg.events || client >= nclients || !self.clients[client].connected {
                    return;
                }
                self.seq += 1;
                let seq = self.seq;
                let sref = self.slots.get(refslot).copied().flatten();
                let sref2 = if matches!(kind, CK::Trig | CK::Unit) { refslot2.and_then(|s| self.slots.get(s).copied().flatten()).filter(|e| Some(*e) != sref) } else { None };
                let authorized = self.authorized(client);
                let c = &mut self.clients[client];
                c.app.world_mut().resource_mut::<CEmitQueue>().0.push((kind, seq, sref, sref2));
                self.cemits.push(CEmit {
                    kind,
                    seq,
                    client,
                    sender: c.id,
                    refent: None,
                    refent2: None,
                    expect: false,
                    emitted: false,
                    session: c.session,
                    authorized_at_emit: authorized,
                });
            }
            Step::ServerFrame { tick } => self.server_frame(tick),
            Step::LongFrame { secs } => {
                use bevy::time::TimeUpdateStrategy;
                let secs = secs.clamp(1, 15) as u64;
                self.server.insert_resource(TimeUpdateStrategy::ManualDuration(std::time::Duration::from_secs(secs)));
                self.server_frame(false);
                self.server.insert_resource(TimeUpdateStrategy::ManualDuration(std::time::Duration::from_millis(10)));
                self.flags.insert("long_server_frame");
            }
            Step::IdleFrames { n } => {
                for _ in 0..n.min(12) {
                    self.server_frame(false);
                }
            }
            Step::TickJump { by } => {
                if self.cfg.policy == 0 && self.running {
                    self.next_jump = (by as u32).clamp(1, 200);
                    if by >= 64 {
                        self.flags.insert("tick_gap_ge_64");
                    }
                    self.server_frame(true);
                }
            }
            Step::BigJump { fine } => {
                if !self.cfg.big_jumps || self.cfg.policy != 0 || !self.running {
                    return;
                }
                if self.advanced + (1 << 30) + (1 << 22) >= (1u64 << 32) {
                    return;
                }
                if !self.can_hop() {
                    return;
                }
                self.hop(|_| (1u32 << 30) - 64 + (fine as u32 % 128));
            }
            Step::ToWrap { before } => {
                if !self.cfg.big_jumps || self.cfg.policy != 0 || !self.running || self.at_wrap || self.cfg.start_tick < (1 << 16) {
                    return;
                }
                if !self.can_hop() {
                    return;
                }
                // (the three rounds after the last hop advance the tick by three: the wrap itself is left to the generated steps)
                let target = u32::MAX - (before.clamp(3, 15)) as u32;
                // never once around the whole counter within one case: tick values identify snapshots
                if self.advanced + target.wrapping_sub(self.tick()) as u64 + (1 << 22) >= (1u64 << 32) {
                    return;
                }
                for _ in 0..5 {
                    let dist = target.wrapping_sub(self.tick());
                    if dist == 0 || dist > u32::MAX - 16 {
                        break;
                    }
                    if dist < 8 {
                        // close enough: the rounds of another hop would carry the tick past the target
                        break;
                    }
                    self.hop(|now| target.wrapping_sub(now).min(1 << 30));
                    if self.fail.is_some() {
                        return;
                    }
                }
                self.at_wrap = true;
                self.flags.insert("moved_to_the_tick_wrap");
                if self.cfg.events && self.clients[0].connected {
                    // One legal schedule made frequent: a dependent event and a world change in every tick across the wrap,
                    // client 0's update messages held back, then all events first and the updates afterwards.
                    if let Some(slot) = (0..nslots).find(|&s| self.slots[s].is_some() && self.marked[s]) {
                        for _ in 0..(before.clamp(3, 15) as usize + 2) {
                            let has = self.slots[slot].is_some_and(|e| self.has_k(e, K::S));
                            self.step(&if has { Step::Remove { slot, k: K::S } } else { Step::Insert { slot, k: K::S } });
                            self.step(&Step::EmitS { kind: SK::Dep, mode: 0, target: 0, refslot: slot, refslot2: None });
                            self.server_frame(true);
                            if self.fail.is_some() {
                                return;
                            }
                        }
                        // the last emission leaves with the next frame
                        self.server_frame(true);
                        self.step(&Step::EventsFirst { client: 0 });
                        self.flags.insert("events_queued_across_the_tick_wrap");
                    }
                }
            }
            Step::ClientFrame { client } => {
                if client < nclients && self.clients[client].connected {
                    self.client_frame(client);
                }
            }
            Step::DeliverUpd { client, n } => {
                for _ in 0..n {
                    if !self.deliver_s2c(client, 0, 0) {
                        break;
                    }
                }
            }
            Step::DeliverMut { client, idx } => {
                self.deliver_s2c(client, 1, idx);
            }
            Step::DropMut { client, idx } => {
                self.drop_s2c(client, 1, idx);
            }
            Step::PartialMut { client, mask, ack } => {
                if client >= nclients || !self.clients[client].connected {
                    return;
                }
                let n = self.clients[client].s2c[1].len();
                if n >= 2 {
                    self.flags.insert("partial_delivery_of_one_batch");
                }
                let mut bit = 0;
                let mut keep_idx = 0u16;
                for _ in 0..n {
                    let deliver = mask & (1 << (bit % 8)) != 0;
                    bit += 1;
                    if deliver {
                        // deliver the first not-yet-handled message
                        let len = self.clients[client].s2c[1].len();
                        let raw = if len == 0 { 0 } else { (((keep_idx as usize) << 16) / len).min(65535) as u16 };
                        let _ = raw;
                        // messages before `keep_idx` stay queued (none here): always take the front
                        self.deliver_s2c(client, 1, 0);
                    } else {
                        self.clients[client].s2c[1].pop_front();
                        self.flags.insert("mut_dropped");
                    }
                    keep_idx = 0;
                }
                self.client_frame(client);
                if ack {
                    while self.deliver_c2s(client, 0, 0) {}
                }
            }
            Step::TimeoutEpisode { client, slot, k, mask } => {
                if client >= nclients || !self.clients[client].connected || self.cfg.policy != 0 || !self.running || self.cfg.timeout_ms > 100 {
                    return;
                }
                self.flags.insert("timeout_episode");
                self.step(&Step::MutateAll { k: K::A });
                self.server_frame(true);
                for round in 0..3 {
                    while self.clients[client].s2c[1].pop_front().is_some() {
                        self.flags.insert("mut_dropped");
                    }
                    // update messages are reliable: they arrive
                    while self.deliver_s2c(client, 0, 0) {}
                    self.client_frame(client);
                    for _ in 0..(self.cfg.timeout_ms / 10 + 2).min(12) {
                        self.server_frame(false);
                    }
                    if round < 2 {
                        self.server_frame(true);
                    }
                }
                self.step(&Step::MutateAll { k: K::C });
                self.server_frame(true);
                self.step(&Step::PartialMut { client, mask, ack: true });
                self.step(&Step::Mutate { slot, k });
                self.server_frame(true);
                self.step(&Step::PartialMut { client, mask: 0xff, ack: true });
            }
            Step::DeliverAck { client, n } => {
                for _ in 0..n {
                    if !self.deliver_c2s(client, 0, 0) {
                        break;
                    }
                }
            }
            Step::DeliverSEv { client, chan, idx } => {
                if let Some(ch) = self.pick_s2c_event_channel(client, chan, false) {
                    self.deliver_s2c(client, ch, idx);
                }
            }
            Step::DropSEv { client, chan, idx } => {
                if let Some(ch) = self.pick_s2c_event_channel(client, chan, true) {
                    self.drop_s2c(client, ch, idx);
                }
            }
            Step::EventsFirst { client } => {
                if client >= nclients || !self.clients[client].connected {
                    return;
                }
                for ch in 2..self.skinds.len() {
                    while self.deliver_s2c(client, ch, 0) {}
                }
                self.client_frame(client);
                while self.deliver_s2c(client, 0, 0) {}
                self.client_frame(client);
            }
            Step::DivergeEpisode { slot, k, rev } => {
                if self.cfg.vis == 0 || slot >= nslots || !self.running {
                    return;
                }
                let Some(e) = self.slots[slot] else { return };
                if !self.marked[slot] || matches!(k, K::X | K::Y | K::P) {
                    return;
                }
                let auth: Vec<usize> = (0..nclients).filter(|&c| self.authorized(c)).collect();
                if auth.len() < 2 {
                    return;
                }
                let viewers: Vec<usize> = auth.iter().copied().filter(|&c| self.visible_to(c, slot)).collect();
                if viewers.is_empty() || viewers.len() == auth.len() {
                    // make it an entity that only some clients see (subject to the usual rules of the `Vis` step), and let
                    // everybody catch up
                    let st = if viewers.is_empty() { Step::Vis { client: *auth.last().unwrap(), slot, visible: true } } else { Step::Vis { client: auth[0], slot, visible: false } };
                    self.step(&st);
                    self.step(&Step::ServerFrame { tick: true });
                    for &c in &auth {
                        self.step(&Step::MutFirst { client: c, rev: false, ack: true });
                    }
                }
                let viewers: Vec<usize> = auth.iter().copied().filter(|&c| self.visible_to(c, slot)).collect();
                if viewers.is_empty() || viewers.len() == auth.len() || self.slots[slot] != Some(e) {
                    return;
                }
                let has = self.has_k(e, k);
                self.step(&if has { Step::Remove { slot, k } } else { Step::Insert { slot, k } });
                self.step(&Step::ServerFrame { tick: true });
                self.step(&Step::MutateAll { k: K::A });
                self.step(&Step::ServerFrame { tick: true });
                for c in viewers {
                    self.step(&Step::MutFirst { client: c, rev, ack: false });
                }
                self.flags.insert("update_ticks_diverged_then_mutations_first");
            }
            Step::ForwardRef { holder, target } => {
                if !self.cfg.refs || holder >= nslots || target >= nslots || holder == target || !self.running {
                    return;
                }
                // preparation (all through ordinary steps, so every generator rule applies): a replicated holder that carries
                // a reference the clients know, and an empty target slot
                if self.slots[holder].is_none() {
                    self.step(&Step::Spawn { slot: holder, marked: true, comps: vec![K::A, K::S] });
                }
                if self.refs[holder].is_none() {
                    if let Some(o) = (0..nslots).find(|&o| o != holder && o != target && self.slots[o].is_some() && self.marked[o]) {
                        self.step(&Step::SetRef { slot: holder, target: o });
                    }
                }
                if self.slots[target].is_some() {
                    self.step(&Step::Despawn { slot: target });
                }
                self.step(&Step::ServerFrame { tick: true });
                for c in 0..nclients {
                    self.step(&Step::MutFirst { client: c, rev: false, ack: true });
                }
                let Some(h) = self.slots[holder] else { return };
                if !self.marked[holder] || self.refs[holder].is_none() || self.slots[target].is_some() {
                    return;
                }
                self.step(&Step::Spawn { slot: target, marked: true, comps: vec![K::A] });
                self.step(&Step::SetRef { slot: holder, target });
                if let Some(k) = [K::S, K::B, K::A, K::C].into_iter().find(|k| self.has_k(h, *k)) {
                    self.step(&Step::Remove { slot: holder, k });
                }
                self.step(&Step::ServerFrame { tick: true });
                self.flags.insert("existing_reference_pointed_at_an_entity_of_the_same_tick");
            }
            Step::MutFirst { client, rev, ack } => {
                if client >= nclients || !self.clients[client].connected {
                    return;
                }
                while self.deliver_s2c(client, 1, if rev { u16::MAX } else { 0 }) {}
                self.client_frame(client);
                while self.deliver_s2c(client, 0, 0) {}
                self.client_frame(client);
                if ack {
                    while self.deliver_c2s(client, 0, 0) {}
                }
            }
            Step::EventsOnly { client } => {
                if client >= nclients || !self.clients[client].connected {
                    return;
                }
                for ch in 2..self.skinds.len() {
                    while self.deliver_s2c(client, ch, 0) {}
                }
                self.client_frame(client);
            }
            Step::DeliverCEv { client, chan, idx } => {
                if let Some(ch) = self.pick_c2s_event_channel(client, chan, false) {
                    self.deliver_c2s(client, ch, idx);
                }
            }
            Step::DropCEv { client, chan, idx } => {
                if let Some(ch) = self.pick_c2s_event_channel(client, chan, true) {
                    self.drop_c2s(client, ch, idx);
                }
            }
            Step::Disconnect { client } => {
                if self.cfg.faults {
                    self.disconnect(client);
                    self.flags.insert("disconnect");
                }
            }
            Step::DisconnectLate { client } => {
                if self.cfg.faults {
                    self.disconnect_with(client, true);
                    self.flags.insert("disconnect");
                }
            }
            Step::Connect { client } => self.connect(client),
            Step::Authorize { client } => self.authorize(client),
            Step::FaultEpisode { client, slot, what, restart } => {
                if !self.cfg.faults || client >= nclients || slot >= nslots || !self.running {
                    return;
                }
                self.connect(client);
                if self.slots[slot].is_none() {
                    self.step(&Step::Spawn { slot, marked: true, comps: vec![K::A] });
                }
                let has_s = self.slots[slot].is_some_and(|e| self.has_k(e, K::S));
                self.step(&if has_s { Step::Remove { slot, k: K::S } } else { Step::Insert { slot, k: K::S } });
                self.step(&Step::Mutate { slot, k: K::A });
                if self.cfg.events {
                    self.step(&Step::EmitS { kind: if what & 8 != 0 { SK::Dep } else { SK::Unord }, mode: 0, target: client, refslot: slot, refslot2: None });
                }
                self.force_tick_frame();
                self.step(&Step::Mutate { slot, k: K::A });
                self.force_tick_frame();
                if what & 1 != 0 {
                    self.step(&Step::EventsOnly { client });
                }
                if what & 2 != 0 {
                    while self.deliver_s2c(client, 1, 0) {}
                    self.client_frame(client);
                }
                if what & 4 != 0 {
                    while self.deliver_s2c(client, 0, 0) {}
                    self.client_frame(client);
                }
                let dissolve = what & 8 != 0 && self.parents[slot].is_some();
                if dissolve && !restart {
                    // a relationship dissolved right before the session ends (no tick in between)
                    self.step(&Step::DelParent { slot });
                }
                self.flags.insert("fault_episode");
                if restart {
                    self.step(&Step::ServerStop);
                    if dissolve {
                        // ... or while the server is stopped
                        self.step(&Step::DelParent { slot });
                    }
                    self.server_frame(false);
                    self.step(&Step::ServerStart);
                } else {
                    self.step(&Step::Disconnect { client });
                }
                self.connect(client);
            }
            Step::ServerRestart => {
                if !self.cfg.faults {
                    return;
                }
                self.step(&Step::ServerStop);
                self.server_frame(false);
                self.step(&Step::ServerStart);
            }
            Step::ServerStop => {
                if !self.cfg.faults || !self.running {
                    return;
                }
                self.flags.insert("server_restart");
                for i in 0..nclients {
                    self.disconnect(i);
                }
                self.server.world_mut().resource_mut::<RepliconServer>().set_running(false);
                self.running = false;
                self.squeue.clear();
                for e in &mut self.semits {
                    if e.pending {
                        // buffered events do not survive a stop
                        e.pending = false;
                        e.must.clear();
                        e.may.clear();
                    }
                }
                self.server_frame(false);
            }
            Step::ServerStopAbrupt => {
                if !self.cfg.faults || !self.running {
                    return;
                }
                // a server that was started and is stopped again before it ran a single frame never noticed that it was
                // running (its "just stopped" edge is observed frame by frame): not a session in the sense of the property
                if self.need_first_tick {
                    return self.step(&Step::ServerStop);
                }
                self.flags.insert("server_restart");
                self.flags.insert("server_stopped_with_clients_connected");
                for i in 0..nclients {
                    // what `disconnect` would note about the moment the session ends
                    let c = &self.clients[i];
                    if c.connected && c.s2c[0].len() > 0 {
                        self.flags.insert("disc_updates_in_flight");
                    }
                    if c.connected && c.s2c[1].len() > 0 {
                        self.flags.insert("disc_mutations_in_flight");
                    }
                }
                self.server.world_mut().resource_mut::<RepliconServer>().set_running(false);
                self.running = false;
                self.squeue.clear();
                for e in &mut self.semits {
                    if e.pending {
                        e.pending = false;
                        e.must.clear();
                        e.may.clear();
                    }
                }
                // the library's own reset despawns the connected clients
                self.server_frame(false);
                for i in 0..nclients {
                    if self.clients[i].connected && self.server.world().get_entity(self.clients[i].id).is_ok() {
                        self.fail("C09.client_entity_survives_stop", format!("the entity of client {i} is still there after the server stopped"));
                    }
                    self.disconnect(i);
                }
            }
            Step::ServerStart => {
                if !self.cfg.faults || self.running {
                    return;
                }
                if self.ops_since_tick > 0 {
                    self.flags.insert("world_changed_while_stopped");
                }
                self.server.world_mut().resource_mut::<RepliconServer>().set_running(true);
                self.running = true;
                self.need_first_tick = true;
                self.advanced = 0;
                if self.cfg.start_tick != 0 && self.cfg.policy == 0 {
                    let cur = self.tick();
                    self.server.world_mut().resource_mut::<ServerTick>().increment_by(self.cfg.start_tick.wrapping_sub(cur));
                }
                self.snap_vals.clear();
                self.snap_seq.clear();
                self.locked.iter_mut().for_each(|l| *l = false);
                self.sent_parents = self.parents.clone();
                self.ops_since_tick = 0;
                self.warm_up();
            }
            Step::JunkAck { client, ref bytes } => {
                if client >= nclients || !self.clients[client].connected {
                    return;
                }
                let stamp = self.clients[client].frames;
                self.clients[client].c2s[0].push_back(Msg { stamp, tick: 0, bytes: Bytes::from(bytes.clone()) });
                self.flags.insert("junk_ack");
            }
            Step::Noise { slot, on, sparse } => {
                if !self.cfg.noise || slot >= nslots {
                    return;
                }
                let Some(e) = self.slots[slot] else { return };
                let v = self.val();
                let mut em = self.server.world_mut().entity_mut(e);
                // not a replicated change: neither `op()` nor any reference data moves
                match (on, sparse) {
                    (true, false) => {
                        em.insert(N(v));
                    }
                    (true, true) => {
                        em.insert(NS(v));
                    }
                    (false, false) => {
                        em.remove::<N>();
                    }
                    (false, true) => {
                        em.remove::<NS>();
                    }
                }
                if self.marked[slot] {
                    self.flags.insert("archetype_move_without_replicated_change");
                    if self.ops_since_tick > 0 {
                        self.flags.insert("archetype_move_with_changes_pending");
                    }
                }
            }
            Step::ClientNoise { client, slot, on } => {
                if !self.cfg.noise || slot >= nslots || client >= nclients || !self.clients[client].connected {
                    return;
                }
                let Some(e) = self.slots[slot] else { return };
                let v = self.val();
                let w = self.clients[client].app.world_mut();
                let Some(ce) = w.resource::<bevy_replicon::shared::server_entity_map::ServerEntityMap>().to_client().get(&e).copied() else { return };
                if let Ok(mut em) = w.get_entity_mut(ce) {
                    if on {
                        em.insert((N(v), NS(v)));
                    } else {
                        em.remove::<(N, NS)>();
                    }
                    self.flags.insert("client_side_archetype_move");
                }
            }
            Step::Touch { slot, k } => {
                if !self.cfg.noise || slot >= nslots {
                    return;
                }
                let Some(e) = self.slots[slot] else { return };
                if (k == K::P && !self.cfg.periodic) || (matches!(k, K::X | K::Y) && !self.cfg.bundle) || k == K::B {
                    return;
                }
                if self.cfg.periodic && self.entity_has_p(slot) && k != K::P && !self.cfg.no_exclusions {
                    return self.exclude("F4_other_change_on_entity_with_periodic_component");
                }
                if self.has_k(e, k) {
                    self.touch_k(e, k);
                    self.op();
                    self.flags.insert("changed_without_new_value");
                }
            }
        }
    }

    /// Chooses among the event channels that currently hold a message (monotone in `raw`).
    fn pick_s2c_event_channel(&self, client: usize, raw: u16, unreliable_only: bool) -> Option<usize> {
        let c = self.clients.get(client)?;
        let cand: Vec<usize> = (2..self.skinds.len())
            .filter(|&ch| !c.s2c[ch].is_empty() && (!unreliable_only || matches!(self.skinds[ch], Channel::Unreliable)))
            .collect();
        if cand.is_empty() { None } else { Some(cand[pick(raw, cand.len())]) }
    }

    fn pick_c2s_event_channel(&self, client: usize, raw: u16, unreliable_only: bool) -> Option<usize> {
        let c = self.clients.get(client)?;
        let cand: Vec<usize> = (1..self.ckinds.len())
            .filter(|&ch| !c.c2s[ch].is_empty() && (!unreliable_only || matches!(self.ckinds[ch], Channel::Unreliable)))
            .collect();
        if cand.is_empty() { None } else { Some(cand[pick(raw, cand.len())]) }
    }

    /// An event that references `e` may legitimately be withheld from `client` (all clients if `None`) from now on:
    /// the entity stopped being shown to it after the event was emitted.
    fn break_refs(&mut self, e: Entity, client: Option<usize>) {
        for em in &mut self.semits {
            if em.refent == Some(e) || em.refent2 == Some(e) {
                for i in 0..em.ref_broken.len() {
                    if client.is_none() || client == Some(i) {
                        em.ref_broken[i] = true;
                    }
                }
            }
        }
    }

    fn op(&mut self) {
        self.ops_since_tick += 1;
        self.world_ops += 1;
        self.dirty = true;
    }

    fn chan_index(kind: Channel, idx: u16, len: usize) -> usize {
        match kind {
            Channel::Ordered => 0,
            _ => pick(idx, len),
        }
    }

    pub fn deliver_s2c(&mut self, client: usize, ch: usize, idx: u16) -> bool {
        if client >= self.clients.len() || !self.clients[client].connected || ch >= self.skinds.len() {
            return false;
        }
        let kind = self.skinds[ch];
        let c = &mut self.clients[client];
        if c.s2c[ch].is_empty() {
            return false;
        }
        let i = Self::chan_index(kind, idx, c.s2c[ch].len());
        let m = c.s2c[ch].remove(i).unwrap();
        if ch == 1 {
            *self.mut_delivered[client].entry(m.tick).or_default() += 1;
            if i != 0 {
                self.flags.insert("mut_reordered");
            }
            if c.s2c[0].front().is_some_and(|u| u.stamp <= m.stamp) {
                self.flags.insert("mut_overtook_upd");
            }
        }
        if ch >= 2 && c.s2c[0].front().is_some_and(|u| u.stamp <= m.stamp) {
            self.flags.insert("event_overtook_upd");
        }
        if ch == 0 {
            c.upd_inserted += 1;
            if c.upd_inserted >= 2 {
                self.flags.insert("multi_upd_one_client_frame");
            }
        }
        c.app.world_mut().resource_mut::<RepliconClient>().insert_received(ch, m.bytes);
        true
    }

    pub fn drop_s2c(&mut self, client: usize, ch: usize, idx: u16) {
        if client >= self.clients.len() || ch >= self.skinds.len() || !matches!(self.skinds[ch], Channel::Unreliable) {
            return;
        }
        let c = &mut self.clients[client];
        if c.s2c[ch].is_empty() {
            return;
        }
        let i = pick(idx, c.s2c[ch].len());
        c.s2c[ch].remove(i);
        self.flags.insert(if ch == 1 { "mut_dropped" } else { "event_dropped" });
    }

    pub fn deliver_c2s(&mut self, client: usize, ch: usize, idx: u16) -> bool {
        if client >= self.clients.len() || !self.clients[client].connected || ch >= self.ckinds.len() {
            return false;
        }
        let kind = self.ckinds[ch];
        let sframes = self.sframes;
        let c = &mut self.clients[client];
        if c.c2s[ch].is_empty() {
            return false;
        }
        let i = Self::chan_index(kind, idx, c.c2s[ch].len());
        let m = c.c2s[ch].remove(i).unwrap();
        if ch == 0 && m.tick as u64 + 2 <= sframes {
            self.flags.insert("ack_delayed");
        }
        self.server.world_mut().resource_mut::<RepliconServer>().insert_received(c.id, ch, m.bytes);
        true
    }

    pub fn drop_c2s(&mut self, client: usize, ch: usize, idx: u16) {
        if client >= self.clients.len() || ch >= self.ckinds.len() || !matches!(self.ckinds[ch], Channel::Unreliable) {
            return;
        }
        let c = &mut self.clients[client];
        if c.c2s[ch].is_empty() {
            return;
        }
        let i = pick(idx, c.c2s[ch].len());
        c.c2s[ch].remove(i);
        self.flags.insert("event_dropped");
    }

    fn recipients(&self, mode: u8, target: usize) -> Vec<usize> {
        (0..self.clients.len())
            .filter(|&i| match mode {
                0 => true,
                1 => i != target,
                _ => i == target,
            })
            .collect()
    }

    /// Turns a queued `EmitS` into an emission performed by the `Update` system of the coming server frame.
    fn emit_server(&mut self, st: &Step) {
        let Step::EmitS { kind, mode, target, refslot, refslot2 } = *st else { return };
        if target >= self.clients.len() || !self.clients[target].connected {
            return;
        }
        let tgt = self.clients[target].id;
        let m = match mode {
            0 => SendMode::Broadcast,
            1 => SendMode::BroadcastExcept(tgt),
            _ => SendMode::Direct(tgt),
        };
        let refent = self.slots.get(refslot).copied().flatten();
        let needs_ref = kind == SK::Dep;
        if needs_ref && refent.is_none() {
            return;
        }
        let refent = if matches!(kind, SK::Dep | SK::Trig) { refent } else { None };
        // a second, different target for triggers
        let refent2 = if kind == SK::Trig && refent.is_some() { refslot2.and_then(|s| self.slots.get(s).copied().flatten()).filter(|e| Some(*e) != refent) } else { None };
        if refent2.is_some() {
            self.flags.insert("trigger_with_two_targets");
        }
        self.seq += 1;
        let seq = self.seq;
        let mut must = BTreeSet::new();
        let mut may = BTreeSet::new();
        for i in self.recipients(mode, target) {
            if !self.clients[i].connected {
                continue;
            }
            if kind == SK::Ind || self.authorized(i) {
                must.insert(i);
            } else {
                may.insert(i);
            }
        }
        self.server.world_mut().resource_mut::<SEmitQueue>().0.push((kind, seq, m, refent, refent2));
        let sessions = self.clients.iter().map(|c| c.session).collect();
        let n = self.clients.len();
        self.semits.push(SEmit {
            kind,
            seq,
            mode,
            target,
            refent,
            refent2,
            must,
            may,
            sessions,
            req_tick: vec![None; n],
            pending: true,
            ref_visible: vec![false; n],
            ref_broken: vec![false; n],
        });
    }

    pub fn server_frame(&mut self, tick: bool) {
        if self.running {
            let q = std::mem::take(&mut self.squeue);
            for st in &q {
                self.emit_server(st);
            }
        }
        let before = self.tick();
        // F15 exclusion: under the manual policy the first frame of a running server increments the tick.
        let tick = self.running && self.cfg.policy == 0 && (tick || (self.need_first_tick && !self.cfg.no_exclusions));
        if tick {
            let by = std::mem::replace(&mut self.next_jump, 1);
            self.advanced += by as u64;
            self.server.world_mut().resource_mut::<ServerTick>().increment_by(by);
        }
        if self.running {
            self.need_first_tick = false;
        }
        crate::alloc::reset_max();
        let dbg = std::env::var("VH_ALLOC_BT").is_ok();
        if dbg {
            crate::alloc::DEBUG_BT.store(1, std::sync::atomic::Ordering::Relaxed);
        }
        self.server.update();
        if dbg {
            crate::alloc::DEBUG_BT.store(0, std::sync::atomic::Ordering::Relaxed);
        }
        self.last_update_max_alloc = crate::alloc::max_request();
        self.sframes += 1;
        let t = self.tick();
        if t < before {
            self.flags.insert("tick_counter_wrapped");
        }
        let replicated = self.running && t != before;
        if replicated {
            self.repl_epoch += 1;
            self.snapshot(t);
            self.ops_since_tick = 0;
        } else if self.ops_since_tick > 0 {
            self.notick_frames_with_ops += 1;
            self.flags.insert("frame_without_tick_between_ops");
        }
        let sent: Vec<_> = self.server.world_mut().resource_mut::<RepliconServer>().drain_sent().collect();
        let mut mut_count = vec![0u32; self.clients.len()];
        for (e, ch, msg) in &sent {
            let Some(ci) = self.clients.iter().position(|c| c.connected && c.id == *e) else {
                if self.or.session {
                    self.fail("C09.message_for_dead_client", format!("message on channel {ch} for client entity {e} that is not connected"));
                }
                continue;
            };
            if *ch == 0 {
                self.last_update_sent[ci] = t;
                self.upd_sent[ci].insert(t);
                self.repl_msgs[ci] += 1;
                if !replicated {
                    self.fail("C03.update_without_tick", format!("update message sent to client {ci} in a frame without a tick"));
                }
            }
            if *ch == 1 {
                self.repl_msgs[ci] += 1;
                mut_count[ci] += 1;
                *self.mut_sent[ci].entry(t).or_default() += 1;
            }
            oracle::check_sent(self, ci, *ch, msg);
        }
        for ci in 0..mut_count.len() {
            if mut_count[ci] > 0 {
                // a mutate message of tick t can only be applied once the client has the update message the server had sent
                // to it last when t's messages left
                let req = self.last_update_sent[ci];
                self.mut_req_upd[ci].insert(t, req);
            }
        }
        self.mut_msgs_last_frame = mut_count;
        if self.cfg.vis != 0 && self.or.isvis {
            oracle::check_is_visible(self);
        }
        for (e, ch, msg) in sent {
            let sframes = self.sframes;
            let Some(ci) = self.clients.iter().position(|c| c.connected && c.id == e) else { continue };
            if ch <= 1 {
                self.settled[ci] = false;
            }
            self.clients[ci].s2c[ch].push_back(Msg { stamp: sframes, tick: t, bytes: msg });
        }
        // bookkeeping for events that left the server in this frame
        let lus = self.last_update_sent.clone();
        let auth: Vec<bool> = (0..self.clients.len()).map(|i| self.authorized(i)).collect();
        let mut refvis: Vec<(usize, Vec<bool>)> = Vec::new();
        for (k, e) in self.semits.iter().enumerate() {
            if e.pending && (replicated || e.kind == SK::Ind) {
                let rv = (0..self.clients.len())
                    .map(|i| {
                        [e.refent, e.refent2].into_iter().flatten().all(|r| (0..self.slots.len()).any(|s| self.slots[s] == Some(r) && self.marked[s] && self.visible_to(i, s)))
                    })
                    .collect();
                refvis.push((k, rv));
            }
        }
        for (k, rv) in refvis {
            let e = &mut self.semits[k];
            e.pending = false;
            e.ref_visible = rv;
            for i in 0..lus.len() {
                e.req_tick[i] = Some(lus[i]);
            }
            if e.kind != SK::Ind {
                let may: Vec<usize> = e.may.iter().copied().collect();
                for i in may {
                    if !auth[i] {
                        e.may.remove(&i);
                    }
                }
            }
        }
        oracle::read_server_log(self);
        self.note_sync();
    }

    pub fn client_frame(&mut self, i: usize) {
        if !self.clients[i].connected {
            return;
        }
        let sframes = self.sframes;
        let c = &mut self.clients[i];
        c.app.update();
        c.frames += 1;
        c.upd_inserted = 0;
        let stamp = c.frames;
        let sent: Vec<_> = c.app.world_mut().resource_mut::<RepliconClient>().drain_sent().collect();
        for (ch, msg) in sent {
            if ch < c.c2s.len() {
                c.c2s[ch].push_back(Msg { stamp, tick: sframes as u32, bytes: msg });
            }
        }
        let emitted = std::mem::take(&mut c.app.world_mut().resource_mut::<CEmitLog>().0);
        for (seq, expect, refent, refent2) in emitted {
            if let Some(em) = self.cemits.iter_mut().find(|e| e.seq == seq) {
                em.expect = expect;
                em.refent = refent;
                em.refent2 = refent2;
                em.emitted = true;
            }
        }
        if self.clients[i].s2c[0].is_empty() && self.clients[i].s2c[1].is_empty() {
            self.settled[i] = true;
        }
        self.note_sync();
        oracle::read_client_log(self, i);
        if self.or.mutate_ticks {
            oracle::read_tick_log(self, i);
        }
        if self.fail.is_none() && (self.or.structure || self.or.values || self.or.adoption) {
            if let Err(f) = oracle::check_frame(self, i) {
                self.fail = Some(f);
            }
        }
    }

    pub fn comps_of(w: &World, e: Entity, to_server: Option<&bevy::ecs::entity::hash_map::EntityHashMap<Entity>>) -> CompMap {
        Self::comps_of_hist(w, e, to_server, None)
    }

    /// `hist`: every client entity -> server entity pair the harness has ever seen in this client's entity map. A reference
    /// held by a component whose target was despawned later still *is* the value of the tick at which it was confirmed.
    pub fn comps_of_hist(
        w: &World,
        e: Entity,
        to_server: Option<&bevy::ecs::entity::hash_map::EntityHashMap<Entity>>,
        hist: Option<&BTreeMap<Entity, Entity>>,
    ) -> CompMap {
        let mut m = BTreeMap::new();
        if let Some(c) = w.get::<A>(e) {
            m.insert("A", c.0 as u64);
        }
        if let Some(c) = w.get::<B>(e) {
            m.insert("B", c.0 as u64);
        }
        if let Some(c) = w.get::<C>(e) {
            m.insert("C", c.0 as u64 * 1000 + c.1.len() as u64);
        }
        if let Some(c) = w.get::<O>(e) {
            m.insert("O", c.0 as u64);
        }
        if let Some(c) = w.get::<P>(e) {
            m.insert("P", c.0 as u64);
        }
        if let Some(c) = w.get::<S>(e) {
            m.insert("S", c.0 as u64);
        }
        if w.get::<Z>(e).is_some() {
            m.insert("Z", 0);
        }
        if let Some(c) = w.get::<X>(e) {
            m.insert("X", c.0 as u64);
        }
        if let Some(c) = w.get::<Y>(e) {
            m.insert("Y", c.0 as u64);
        }
        let map = |x: Entity| match to_server {
            Some(ms) => ms.get(&x).copied().or_else(|| hist.and_then(|h| h.get(&x).copied())).map(|x| x.to_bits()).unwrap_or(u64::MAX),
            None => x.to_bits(),
        };
        if let Some(c) = w.get::<R>(e) {
            m.insert("R", map(c.0));
        }
        if let Some(c) = w.get::<ChildOf>(e) {
            m.insert("ChildOf", map(c.0));
        }
        if let Some(c) = w.get::<OwnedBy>(e) {
            m.insert("OwnedBy", map(c.0));
        }
        m
    }

    fn snapshot(&mut self, t: u32) {
        self.sent_parents = self.parents.clone();
        self.locked.iter_mut().for_each(|l| *l = false);
        let mut vals = BTreeMap::new();
        for slot in 0..self.slots.len() {
            let Some(e) = self.slots[slot] else { continue };
            if !self.marked[slot] {
                continue;
            }
            let mut m = Self::comps_of(self.server.world(), e, None);
            if !(m.contains_key("X") && m.contains_key("Y")) {
                // the bundle rule does not match: neither part is replicated
                m.remove("X");
                m.remove("Y");
            }
            vals.insert(e, m);
        }
        let mut views: Vec<BTreeSet<usize>> = Vec::new();
        for ci in 0..self.clients.len() {
            let mut st = BTreeMap::new();
            let mut view = BTreeSet::new();
            if self.authorized(ci) {
                for slot in 0..self.slots.len() {
                    let Some(e) = self.slots[slot] else { continue };
                    if !self.marked[slot] || !self.visible_to(ci, slot) {
                        continue;
                    }
                    view.insert(slot);
                    st.insert(e, vals[&e].keys().copied().collect::<BTreeSet<_>>());
                }
            }
            views.push(view);
            self.snap_struct[ci].insert(t, st);
        }
        if views.len() >= 2 && views.windows(2).any(|w| w[0] != w[1]) && self.cfg.vis != 0 {
            self.flags.insert("clients_see_different_sets");
        }
        let n = self.snap_seq.len() as u64;
        self.snap_seq.insert(t, n);
        self.snap_vals.insert(t, vals);
    }

    /// Quiescence: stop world operations, (re)connect and authorize everybody, lock-step rounds.
    pub fn settle(&mut self) {
        if !self.running {
            let faults = self.cfg.faults;
            self.cfg.faults = true;
            self.step(&Step::ServerStart);
            self.cfg.faults = faults;
        }
        let rounds = 6 + 2 * self.cfg.period as usize;
        for i in 0..self.clients.len() {
            self.connect(i);
        }
        for r in 0..rounds {
            if self.cfg.auth == 1 && r == 1 {
                for i in 0..self.clients.len() {
                    self.authorize(i);
                }
            }
            self.lockstep_round();
        }
    }

    pub fn force_tick_frame(&mut self) {
        // run frames until replication happens (EveryFrame: 1, MaxTickRate(30) with 10 ms frames: <= 4)
        let before = self.tick();
        for _ in 0..8 {
            self.server_frame(true);
            if self.tick() != before {
                break;
            }
        }
    }

    pub fn lockstep_round(&mut self) {
        self.force_tick_frame();
        for i in 0..self.clients.len() {
            if !self.clients[i].connected {
                continue;
            }
            for ch in 0..self.skinds.len() {
                while self.deliver_s2c(i, ch, 0) {}
            }
            self.client_frame(i);
            for ch in 0..self.ckinds.len() {
                while self.deliver_c2s(i, ch, 0) {}
            }
        }
    }
}
