//! Oracles of the simulation engine. Every clause names the property statement it comes from.
use std::collections::{BTreeMap, BTreeSet};

use bevy::prelude::*;
use bevy_replicon::client::ServerUpdateTick;
use bevy_replicon::client::confirm_history::ConfirmHistory;
use bevy_replicon::prelude::*;
use bevy_replicon::shared::event::remote_event_registry::RemoteEventRegistry;
use bevy_replicon::shared::server_entity_map::ServerEntityMap;
use bytes::Bytes;

use super::apps::*;
use super::*;
use crate::common::Fail;

/// Wrapping comparison of ticks (the harness never compares ticks 2^31 or more apart).
pub fn tick_lt(a: u32, b: u32) -> bool {
    (a.wrapping_sub(b) as i32) < 0
}
pub fn tick_le(a: u32, b: u32) -> bool {
    (a.wrapping_sub(b) as i32) <= 0
}

/// Checks on every message that leaves the server (C07 unauthorized clients, C08 hidden data).
pub fn check_sent(sim: &mut Sim, ci: usize, ch: usize, msg: &Bytes) {
    if sim.or.unauth && !sim.authorized(ci) {
        let reg = sim.server.world().resource::<RemoteEventRegistry>();
        let mut allowed = vec![reg.server_channel::<SInd>()];
        if sim.cfg.auth == 2 {
            // The shared plugin registers the mismatch trigger before any user registration, i.e. right after the
            // two replication channels (`server_channel` cannot be asked about triggers: their event type is private).
            assert_eq!(reg.server_channel::<SDep>(), Some(3), "harness assumption about channel numbering");
            allowed.push(Some(2));
        }
        if !allowed.contains(&Some(ch)) {
            let kind = match ch {
                0 => "C07.replication_to_unauthorized",
                1 => "C07.replication_to_unauthorized",
                _ => "C07.dependent_event_to_unauthorized",
            };
            sim.fail(kind, format!("message on server channel {ch} sent to unauthorized client {ci}"));
        }
    }
    if sim.or.wire && sim.cfg.vis != 0 && ch <= 1 {
        for slot in 0..sim.slots.len() {
            let Some(se) = sim.slots[slot] else { continue };
            if sim.visible_to(ci, slot) {
                continue;
            }
            if let Some(c) = sim.server.world().get::<C>(se) {
                let pat = &c.1[..8];
                if msg.windows(8).any(|w| w == pat) {
                    sim.fail("C08.hidden_data_on_wire", format!("secret of hidden slot {slot} sent to client {ci} on channel {ch}"));
                    return;
                }
            }
        }
    }
}

/// C08: the visibility query reports the most recent setting of every live entity.
pub fn check_is_visible(sim: &mut Sim) {
    for ci in 0..sim.clients.len() {
        if !sim.authorized(ci) {
            continue;
        }
        let id = sim.clients[ci].id;
        for slot in 0..sim.slots.len() {
            let Some(se) = sim.slots[slot] else { continue };
            let Some(v) = sim.server.world().get::<ClientVisibility>(id) else { continue };
            let got = v.is_visible(se);
            if got != sim.visible_to(ci, slot) {
                sim.fail("C08.is_visible", format!("is_visible(slot {slot}) for client {ci} is {got}, last setting says {}", !got));
                return;
            }
        }
    }
}

pub fn read_server_log(sim: &mut Sim) {
    let log = &sim.server.world().resource::<ServerLog>().0;
    let new: Vec<_> = log[sim.server_log_pos..].to_vec();
    sim.server_log_pos = log.len();
    if sim.drain_logs {
        // C06 floods the server with tens of thousands of frames: keep the harness's own log from growing
        sim.server.world_mut().resource_mut::<ServerLog>().0.clear();
        sim.server_log_pos = 0;
        sim.server.world_mut().resource_mut::<DisconnectRequests>().0.clear();
    }
    let bad = std::mem::take(&mut sim.server.world_mut().resource_mut::<BadPayload>().0);
    if sim.or.ev_once {
        if let Some(b) = bad.first() {
            sim.fail("C05.payload", format!("a client event reached server logic with an altered payload: {b}"));
        }
    }
    // (a client trigger with two targets: one observer run per target, merged into one delivery like on the client side)
    let mut merged: Vec<(CK, u32, Entity, Option<Entity>, Option<Entity>)> = Vec::new();
    for (kind, seq, sender, ent) in new {
        let two = sim.cemits.iter().any(|e| e.seq == seq && e.refent2.is_some());
        if let Some(last) = merged.last_mut() {
            if two && kind == CK::Trig && last.0 == CK::Trig && last.1 == seq && last.2 == sender && last.4.is_none() && last.3 != ent {
                last.4 = ent;
                continue;
            }
        }
        merged.push((kind, seq, sender, ent, None));
    }
    for (kind, seq, sender, ent, ent2) in merged {
        *sim.delivered_c.entry(seq).or_default() += 1;
        sim.last_from.insert(sender, seq);
        if sim.drain_logs {
            sim.from_log.push((kind, seq, sender));
        }
        if !sim.or.ev_once {
            continue;
        }
        let Some(em) = sim.cemits.iter().find(|e| e.seq == seq).cloned() else {
            sim.fail("C05.unknown_event", format!("server saw unknown client event {seq}"));
            continue;
        };
        if em.kind != kind {
            sim.fail("C05.kind", format!("kind mismatch for client event {seq}"));
        }
        if em.sender != sender {
            sim.fail("C05.sender", format!("client event {seq} reported sender {sender}, true sender {}", em.sender));
        }
        if sim.clients[em.client].session != em.session || !sim.clients[em.client].connected {
            sim.fail("C09.old_session_event", format!("client event {seq} of an ended session reached server logic"));
        }
        if !em.expect {
            sim.fail("C05.unmappable_sent", format!("client event {seq} with an unmappable entity was delivered"));
        }
        if ent != em.refent {
            sim.fail("C05.reference", format!("client event {seq} arrived with entity {ent:?}, expected {:?}", em.refent));
        }
        if ent2 != em.refent2 {
            sim.fail("C05.reference", format!("client trigger {seq} arrived with second target {ent2:?}, expected {:?}", em.refent2));
        }
    }
}

pub fn read_client_log(sim: &mut Sim, i: usize) {
    let c = &mut sim.clients[i];
    let log = &c.app.world().resource::<ClientLog>().0;
    let new: Vec<_> = log[c.log_pos..].to_vec();
    c.log_pos = log.len();
    let session = c.session;
    // A trigger with two targets runs the observer once per target: two consecutive entries with the same sequence
    // number and different entities are ONE delivery (at most as many entries as the trigger has targets are merged,
    // so a second delivery of the same trigger still shows as a duplicate).
    let mut merged: Vec<(SK, u32, u32, Option<Entity>, Option<Entity>)> = Vec::new();
    for (kind, seq, tick_at, ent) in new {
        let two = sim.semits.iter().any(|e| e.seq == seq && e.refent2.is_some());
        if let Some(last) = merged.last_mut() {
            if two && kind == SK::Trig && last.0 == SK::Trig && last.1 == seq && last.4.is_none() && last.3 != ent {
                last.4 = ent;
                continue;
            }
        }
        merged.push((kind, seq, tick_at, ent, None));
    }
    for (kind, seq, tick_at, ent, ent2) in merged {
        *sim.delivered_s.entry((i, seq)).or_default() += 1;
        let Some(em) = sim.semits.iter().find(|e| e.seq == seq).cloned() else {
            if sim.or.ev_once {
                sim.fail("C05.unknown_event", format!("client {i} saw unknown event {seq}"));
            }
            continue;
        };
        if (sim.or.ev_once || sim.or.session) && em.sessions[i] != session {
            sim.fail("C09.old_session_event", format!("client {i} got event {seq} that was sent before its current session"));
        }
        if sim.or.ev_once && !em.must.contains(&i) && !em.may.contains(&i) {
            sim.fail("C05.wrong_recipient", format!("client {i} is not a recipient of event {seq} ({:?} mode {} target {})", em.kind, em.mode, em.target));
        }
        if sim.or.ev_once && em.kind != kind {
            sim.fail("C05.kind", format!("kind mismatch for server event {seq}"));
        }
        if sim.or.ev_tick {
            // the gate compares event ticks with the client's update tick: that tick must be one the server really sent to
            // this client in this session (or the initial 0)
            if tick_at != 0 && !sim.upd_sent[i].contains(&tick_at) {
                sim.fail("C04.stale_update_tick", format!("client {i} handed event {seq} to game logic while its update tick {tick_at} is not a tick of an update message of this session"));
            }
            if em.kind != SK::Ind {
                match em.req_tick[i] {
                    Some(r) => {
                        if tick_lt(tick_at, r) {
                            sim.fail("C04.early", format!("client {i} got {:?} {seq} at update tick {tick_at} < required {r}", em.kind));
                        } else if sim.clients[i].frames > 0 {
                            // statistics only
                        }
                    }
                    None => sim.fail("C04.before_send", format!("client {i} got event {seq} before it left the server")),
                }
            }
            if let Some(sref) = em.refent {
                let map = sim.clients[i].app.world().resource::<ServerEntityMap>();
                let expect = map.to_client().get(&sref).copied();
                if expect.is_none() || ent != expect {
                    sim.fail("C04.reference", format!("client {i} event {seq} resolved {ent:?} but the entity map says {expect:?}"));
                } else if sim.clients[i].app.world().get_entity(ent.unwrap()).is_err() {
                    sim.fail("C04.dead_reference", format!("client {i} event {seq} resolved to a dead entity"));
                }
            }
            if let Some(sref2) = em.refent2 {
                let map = sim.clients[i].app.world().resource::<ServerEntityMap>();
                let expect = map.to_client().get(&sref2).copied();
                if expect.is_none() || ent2 != expect {
                    sim.fail("C04.reference", format!("client {i} trigger {seq}: second target resolved {ent2:?} but the entity map says {expect:?}"));
                } else if sim.clients[i].app.world().get_entity(ent2.unwrap()).is_err() {
                    sim.fail("C04.dead_reference", format!("client {i} trigger {seq}: second target resolved to a dead entity"));
                }
            }
        }
    }
}

/// C02 / C03 / C16 after every client frame.
pub fn check_frame(sim: &mut Sim, ci: usize) -> Result<(), Fail> {
    let nslots = sim.slots.len();
    let c = &mut sim.clients[ci];
    let n_rep = c.app.world_mut().query_filtered::<Entity, With<Replicated>>().iter(c.app.world()).count();
    let cw = c.app.world();
    let u = cw.resource::<ServerUpdateTick>().get();
    if sim.or.structure && sim.upd_sent[ci].contains(&sim.last_u[ci]) && tick_lt(u, sim.last_u[ci]) {
        return Err(Fail::new("C03.tick_backwards", format!("client {ci}: update tick went back {} -> {u}", sim.last_u[ci])));
    }
    sim.last_u[ci] = u;
    let empty = BTreeMap::new();
    let expected = if u == 0 && !sim.upd_sent[ci].contains(&0) {
        &empty
    } else {
        if sim.or.structure && !sim.upd_sent[ci].contains(&u) {
            return Err(Fail::new("C03.unknown_tick", format!("client {ci}: update tick {u} is not a tick at which an update message was sent to it")));
        }
        match sim.snap_struct[ci].get(&u) {
            Some(s) => s,
            None => {
                if sim.or.structure {
                    return Err(Fail::new("C03.unknown_tick", format!("client {ci}: update tick {u} was never replicated")));
                }
                return Ok(());
            }
        }
    };
    let map = cw.resource::<ServerEntityMap>();
    for (&se, &ce) in map.to_client().iter() {
        sim.hist_map[ci].insert(ce, se);
    }
    // pre-mapped entities that are not (yet) visible to this client are allowed extras
    let mut extras = 0;
    for se in &sim.premapped[ci] {
        if !expected.contains_key(se) && map.to_client().contains_key(se) {
            extras += 1;
        }
    }
    if sim.or.structure {
        if map.to_client().len() - extras != expected.len() || map.to_server().len() - extras != expected.len() {
            return Err(Fail::new(
                "C03.entity_set",
                format!(
                    "client {ci} at update tick {u}: map has {}/{} entries, server had replicated {} entities to it ({:?} vs {:?})",
                    map.to_client().len(),
                    map.to_server().len(),
                    expected.len(),
                    map.to_client().keys().collect::<BTreeSet<_>>(),
                    expected.keys().collect::<Vec<_>>()
                ),
            ));
        }
        if n_rep - extras != expected.len() {
            return Err(Fail::new(
                "C03.replicated_count",
                format!("client {ci} at update tick {u}: {} entities carry Replicated, expected {}", n_rep - extras, expected.len()),
            ));
        }
    }
    let mut seen = BTreeMap::new();
    for (&se, &ce) in map.to_client().iter() {
        if sim.or.structure && map.to_server().get(&ce) != Some(&se) {
            return Err(Fail::new("C03.map_inverse", format!("client {ci}: entity map is not a bijection at {se}")));
        }
        let Some(exp) = expected.get(&se) else {
            if sim.premapped[ci].contains(&se) {
                continue;
            }
            if sim.or.structure {
                return Err(Fail::new("C03.entity_set", format!("client {ci} at {u}: holds {se} which is not replicated to it at that tick")));
            }
            continue;
        };
        let Ok(cent) = cw.get_entity(ce) else {
            if sim.or.structure {
                return Err(Fail::new("C03.dead_mapping", format!("client {ci} at {u}: {se} mapped to a dead entity")));
            }
            continue;
        };
        if sim.or.adoption {
            for slot in 0..nslots {
                if sim.slots[slot] == Some(se) {
                    if let Some(local) = sim.prespawned[ci][slot] {
                        if local != ce {
                            return Err(Fail::new("C16.not_adopted", format!("client {ci}: slot {slot} replicated into {ce} instead of pre-spawned {local}")));
                        }
                    }
                }
            }
        }
        if sim.or.structure && !cent.contains::<Replicated>() {
            return Err(Fail::new("C03.marker", format!("client {ci} at {u}: {se} lacks Replicated")));
        }
        let have = Sim::comps_of_hist(cw, ce, Some(map.to_server()), Some(&sim.hist_map[ci]));
        let mut have_set: BTreeSet<_> = have.keys().copied().collect();
        let mut exp_set = exp.clone();
        if !sim.cfg.periodic {
            have_set.remove("P");
            exp_set.remove("P");
        }
        if !exp_set.contains("X") {
            // the bundle rule did not match on the server at that tick: nothing is claimed about leftovers of its parts
            have_set.remove("X");
            have_set.remove("Y");
        }
        if sim.or.structure && have_set != exp_set {
            return Err(Fail::new(
                "C03.components",
                format!("client {ci} at update tick {u}: {se} has components {have_set:?}, server had {exp_set:?}"),
            ));
        }
        if !sim.or.values || sim.values_only.as_ref().is_some_and(|v| !v.contains(&ci)) {
            continue;
        }
        let Some(h) = cent.get::<ConfirmHistory>() else {
            return Err(Fail::new("C02.no_history", format!("client {ci}: {se} has no ConfirmHistory")));
        };
        let t = h.last_tick().get();
        if let Some(&prev) = sim.last_confirm[ci].get(&ce) {
            if tick_lt(t, prev) {
                return Err(Fail::new("C02.tick_backwards", format!("client {ci}: {se} confirmed tick went back {prev} -> {t}")));
            }
        }
        seen.insert(ce, t);
        let Some(vals) = sim.snap_vals.get(&t).and_then(|v| v.get(&se)) else {
            return Err(Fail::new("C02.unknown_tick", format!("client {ci}: {se} confirmed at tick {t} at which it was not replicated")));
        };
        for k in ["A", "B", "C", "S", "R", "ChildOf", "OwnedBy", "X", "Y"] {
            if (k == "X" || k == "Y") && !vals.contains_key("X") {
                continue;
            }
            if (k == "R" || k == "ChildOf" || k == "OwnedBy") && have.get(k) == Some(&u64::MAX) {
                // The reference points at a client entity the harness never saw mapped (it came and went within one
                // client frame). That is the tick-t value if the server's target at tick t is an entity this client has
                // meanwhile been told to drop.
                if let Some(&bits) = vals.get(k) {
                    if !expected.keys().any(|e| e.to_bits() == bits) {
                        continue;
                    }
                }
            }
            if have.get(k) != vals.get(k) {
                return Err(Fail::new(
                    "C02.value",
                    format!(
                        "client {ci}: {se} at confirmed tick {t} (update tick {u}): {k} client {:?} server-at-that-tick {:?}",
                        have.get(k),
                        vals.get(k)
                    ),
                ));
            }
        }
        if let Some(o) = have.get("O") {
            // "at a tick up to now": ordered by when the snapshot was taken, because tick values may wrap
            let seq = |x: u32| sim.snap_seq.get(&x).copied().unwrap_or(0);
            let newest = if seq(u) < seq(t) { t } else { u };
            let ok = sim.snap_vals.iter().filter(|(k, _)| seq(**k) <= seq(newest)).any(|(_, v)| v.get(&se).and_then(|m| m.get("O")) == Some(o));
            if !ok {
                return Err(Fail::new("C02.once_value", format!("client {ci}: {se} once-component value {o} never existed at a tick <= {newest}")));
            }
        }
    }
    if sim.or.values {
        sim.last_confirm[ci] = seen;
    }
    Ok(())
}

/// C01 at quiescence: the client's replicated view equals the server's.
pub fn check_converged(sim: &mut Sim) -> Result<(), Fail> {
    let nslots = sim.slots.len();
    for ci in 0..sim.clients.len() {
        if !sim.authorized(ci) || sim.converge_only.as_ref().is_some_and(|v| !v.contains(&ci)) {
            continue;
        }
        let mut expected = 0;
        for slot in 0..nslots {
            let Some(se) = sim.slots[slot] else { continue };
            if !sim.marked[slot] || !sim.visible_to(ci, slot) {
                continue;
            }
            expected += 1;
            let cw = sim.clients[ci].app.world();
            let map = cw.resource::<ServerEntityMap>();
            let Some(&ce) = map.to_client().get(&se) else {
                return Err(Fail::new("C01.missing_entity", format!("client {ci}: slot {slot} ({se}) missing from the entity map at quiescence")));
            };
            let Ok(cent) = cw.get_entity(ce) else {
                return Err(Fail::new("C01.dead_entity", format!("client {ci}: slot {slot} mapped to a dead entity")));
            };
            if !cent.contains::<Replicated>() {
                return Err(Fail::new("C01.marker", format!("client {ci}: slot {slot} lacks the replication marker")));
            }
            let sw = sim.server.world();
            macro_rules! cmp {
                ($t:ty, $name:expr) => {
                    let sv = sw.get::<$t>(se);
                    let cv = cw.get::<$t>(ce);
                    if sv != cv {
                        return Err(Fail::new(
                            "C01.value",
                            format!("client {ci}: slot {slot} component {}: server {:?} client {:?}", $name, sv, cv),
                        ));
                    }
                };
            }
            cmp!(A, "A");
            cmp!(B, "B");
            cmp!(C, "C");
            cmp!(S, "S");
            cmp!(Z, "Z");
            if sw.get::<X>(se).is_some() && sw.get::<Y>(se).is_some() {
                cmp!(X, "X");
                cmp!(Y, "Y");
            }
            // a part removed while the rule matched is removed on the client as well
            if sw.get::<X>(se).is_none() && cw.get::<X>(ce).is_some() && !sim.leftover_ok[slot][0] {
                return Err(Fail::new("C01.value", format!("client {ci}: slot {slot} still has bundle part X, removed on the server while the rule matched")));
            }
            if sw.get::<Y>(se).is_none() && cw.get::<Y>(ce).is_some() && !sim.leftover_ok[slot][1] {
                return Err(Fail::new("C01.value", format!("client {ci}: slot {slot} still has bundle part Y, removed on the server while the rule matched")));
            }
            if sim.cfg.periodic {
                cmp!(P, "P");
            }
            if sw.get::<O>(se).is_some() != cw.get::<O>(ce).is_some() {
                return Err(Fail::new("C01.value", format!("client {ci}: slot {slot} once-component presence differs")));
            }
            let sr = sw.get::<R>(se).map(|r| map.to_client().get(&r.0).copied());
            let cr = cw.get::<R>(ce).map(|r| Some(r.0));
            if sr != cr {
                return Err(Fail::new("C01.value", format!("client {ci}: slot {slot} reference: server(mapped) {sr:?} client {cr:?}")));
            }
            let so = sw.get::<OwnedBy>(se).map(|r| map.to_client().get(&r.0).copied());
            let co = cw.get::<OwnedBy>(ce).map(|r| Some(r.0));
            if so != co {
                return Err(Fail::new("C01.value", format!("client {ci}: slot {slot} owner: server(mapped) {so:?} client {co:?}")));
            }
            let sp = sw.get::<ChildOf>(se).map(|r| map.to_client().get(&r.0).copied());
            let cp = cw.get::<ChildOf>(ce).map(|r| Some(r.0));
            if sp != cp {
                return Err(Fail::new("C01.value", format!("client {ci}: slot {slot} parent: server(mapped) {sp:?} client {cp:?}")));
            }
        }
        let mut extras = 0;
        for se in &sim.premapped[ci] {
            let shown = (0..nslots).any(|slot| sim.slots[slot] == Some(*se) && sim.marked[slot] && sim.visible_to(ci, slot));
            if !shown && sim.clients[ci].app.world().resource::<ServerEntityMap>().to_client().contains_key(se) {
                extras += 1;
            }
        }
        let c = &mut sim.clients[ci];
        let n_rep = c.app.world_mut().query_filtered::<Entity, With<Replicated>>().iter(c.app.world()).count() - extras;
        let n_map = c.app.world().resource::<ServerEntityMap>().to_client().len() - extras;
        if n_rep != expected {
            return Err(Fail::new("C01.entity_count", format!("client {ci}: {n_rep} replicated entities at quiescence, server shows it {expected}")));
        }
        if n_map != expected {
            return Err(Fail::new("C01.entity_count", format!("client {ci}: entity map has {n_map} entries at quiescence, expected {expected}")));
        }
    }
    Ok(())
}

/// C05 at quiescence: exactly once / at most once / never, and order.
pub fn check_events_final(sim: &mut Sim) -> Result<(), Fail> {
    let n = sim.clients.len();
    for em in &sim.semits {
        for i in 0..n {
            let got = sim.delivered_s.get(&(i, em.seq)).copied().unwrap_or(0);
            let still = sim.clients[i].connected && sim.clients[i].session == em.sessions[i];
            let reliable = em.kind != SK::Unrel;
            if got > 1 {
                return Err(Fail::new("C05.duplicate", format!("client {i} got event {} ({:?}) {got} times", em.seq, em.kind)));
            }
            // A reference to an entity the client is not shown may legitimately be withheld.
            let may_withhold = em.refent.is_some() && (!em.ref_visible[i] || em.ref_broken[i]);
            if em.must.contains(&i) && still && reliable && !may_withhold && !em.pending && got != 1 {
                return Err(Fail::new("C05.lost", format!("client {i} must get {:?} {} exactly once, got {got}", em.kind, em.seq)));
            }
            if !em.must.contains(&i) && !em.may.contains(&i) && got != 0 {
                return Err(Fail::new("C05.wrong_recipient", format!("client {i} must not get event {}", em.seq)));
            }
        }
    }
    for em in &sim.cemits {
        let got = sim.delivered_c.get(&em.seq).copied().unwrap_or(0);
        let still = sim.clients[em.client].connected && sim.clients[em.client].session == em.session;
        if got > 1 {
            return Err(Fail::new("C05.duplicate", format!("server got client event {} {got} times", em.seq)));
        }
        let reliable = em.kind != CK::Unrel;
        if em.emitted && em.expect && still && reliable && em.authorized_at_emit && got != 1 {
            return Err(Fail::new("C05.lost", format!("server must get client event {:?} {} once, got {got}", em.kind, em.seq)));
        }
        if em.emitted && !em.expect && got != 0 {
            return Err(Fail::new("C05.unmappable_sent", format!("unmappable client event {} was delivered", em.seq)));
        }
    }
    for i in 0..n {
        for kind in [SK::Dep, SK::Ind, SK::Trig] {
            let mut seqs: Vec<u32> = sim.clients[i].app.world().resource::<ClientLog>().0.iter().filter(|e| e.0 == kind).map(|e| e.1).collect();
            if kind == SK::Trig {
                // one entry per target of a trigger (a repeated delivery is the duplicate check's business)
                seqs.dedup();
            }
            if seqs.windows(2).any(|w| w[0] >= w[1]) {
                return Err(Fail::new("C05.order", format!("client {i} got {kind:?} events out of order: {seqs:?}")));
            }
        }
    }
    for kind in [CK::Ev, CK::Map, CK::Trig, CK::List] {
        let ids: BTreeSet<Entity> = sim.cemits.iter().map(|e| e.sender).collect();
        for id in ids {
            let mut seqs: Vec<u32> = sim.server.world().resource::<ServerLog>().0.iter().filter(|e| e.0 == kind && e.2 == id).map(|e| e.1).collect();
            if kind == CK::Trig {
                seqs.dedup();
            }
            if seqs.windows(2).any(|w| w[0] >= w[1]) {
                return Err(Fail::new("C05.order", format!("server got {kind:?} events from {id} out of order: {seqs:?}")));
            }
        }
    }
    Ok(())
}

/// C11: after quiescence an idle server sends no replication messages (exactly one empty mutate message per tick
/// and client with tracking), and resumes with the next change.
pub fn check_silence(sim: &mut Sim) -> Result<(), Fail> {
    let rounds = 2 * sim.cfg.period as usize + 4;
    for r in sim.repl_msgs.iter_mut() {
        *r = 0;
    }
    let mut ticks = 0u64;
    for _ in 0..rounds {
        let before = sim.tick();
        sim.lockstep_round();
        if sim.tick() != before {
            ticks += 1;
        }
        if let Some(f) = sim.fail.take() {
            return Err(f);
        }
    }
    for ci in 0..sim.clients.len() {
        if !sim.authorized(ci) {
            continue;
        }
        let got = sim.repl_msgs[ci];
        let allowed = if sim.cfg.track { ticks } else { 0 };
        if got != allowed {
            return Err(Fail::new(
                "C11.not_silent",
                format!("{got} replication messages sent to client {ci} during {ticks} idle ticks (allowed {allowed})"),
            ));
        }
    }
    Ok(())
}

/// C07 at quiescence: who ended up authorized, mismatch notification and disconnect request.
pub fn check_auth_final(sim: &mut Sim) -> Result<(), Fail> {
    for ci in 0..sim.clients.len() {
        if !sim.clients[ci].connected {
            continue;
        }
        let bit = sim.cfg.mismatch & (1 << ci) != 0;
        match sim.cfg.auth {
            2 => {
                let auth = sim.authorized(ci);
                if bit {
                    if auth {
                        return Err(Fail::new("C07.mismatch_authorized", format!("client {ci} with a different protocol was authorized")));
                    }
                    let id = sim.clients[ci].id;
                    if !sim.server.world().resource::<DisconnectRequests>().0.contains(&id) {
                        return Err(Fail::new("C07.no_disconnect_request", format!("no disconnect request for mismatching client {ci}")));
                    }
                    let seen = sim.clients[ci].app.world().resource::<MismatchSeen>().0;
                    if seen == 0 && !sim.flags.contains("event_dropped") {
                        return Err(Fail::new("C07.not_notified", format!("mismatching client {ci} was never notified")));
                    }
                } else if !auth {
                    return Err(Fail::new("C07.match_not_authorized", format!("client {ci} with the same protocol is not authorized at quiescence")));
                }
            }
            1 => {
                if bit && sim.authorized(ci) {
                    return Err(Fail::new("C07.unexpected_authorization", format!("client {ci} was authorized although the game never did it")));
                }
            }
            _ => {}
        }
        if !sim.authorized(ci) {
            let c = &mut sim.clients[ci];
            let n = c.app.world_mut().query_filtered::<Entity, With<Replicated>>().iter(c.app.world()).count();
            if n != 0 {
                return Err(Fail::new("C07.replication_to_unauthorized", format!("unauthorized client {ci} holds {n} replicated entities")));
            }
        }
    }
    Ok(())
}

/// C12 end to end, per frame: a tick is reported at most once and only when every message sent for it was handed over.
pub fn read_tick_log(sim: &mut Sim, i: usize) {
    let log = &sim.clients[i].app.world().resource::<TickLog>().0;
    let new: Vec<u32> = log[sim.tick_log_pos[i]..].to_vec();
    sim.tick_log_pos[i] = log.len();
    for t in new {
        let fired = {
            let f = sim.tick_fired[i].entry(t).or_default();
            *f += 1;
            *f
        };
        let sent = sim.mut_sent[i].get(&t).copied();
        let delivered = sim.mut_delivered[i].get(&t).copied().unwrap_or(0);
        if fired > 1 {
            sim.fail("C12.fired_twice", format!("client {i}: MutateTickReceived for tick {t} fired {fired} times"));
        }
        // "applied", not merely received: a mutate message waits in the client's buffer until the update message it depends
        // on has arrived (the update tick never decreases, so looking at it at the end of the frame is conservative)
        if let Some(&req) = sim.mut_req_upd[i].get(&t) {
            let u = sim.clients[i].app.world().resource::<bevy_replicon::client::ServerUpdateTick>().get();
            if req != 0 && tick_lt(u, req) && sim.upd_sent[i].contains(&req) {
                sim.fail(
                    "C12.fired_before_applied",
                    format!("client {i}: MutateTickReceived for tick {t} while the client's update tick is {u}: that tick's mutate messages need update tick {req} and are still buffered"),
                );
            }
        }
        match sent {
            None => sim.fail("C12.fired_unknown_tick", format!("client {i}: MutateTickReceived for tick {t} for which no mutate message was sent")),
            Some(n) if delivered < n => sim.fail(
                "C12.fired_incomplete",
                format!("client {i}: MutateTickReceived for tick {t} after {delivered} of {n} messages"),
            ),
            _ => {}
        }
    }
}

/// C12 end to end at quiescence: reported exactly the ticks whose messages all arrived; the tracker agrees.
pub fn check_mutate_ticks_final(sim: &mut Sim) -> Result<(), Fail> {
    use bevy_replicon::client::server_mutate_ticks::ServerMutateTicks;
    use bevy_replicon::shared::replicon_tick::RepliconTick;
    for i in 0..sim.clients.len() {
        if !sim.authorized(i) {
            continue;
        }
        if !sim.cfg.track {
            continue;
        }
        let Some(ticks) = sim.clients[i].app.world().get_resource::<ServerMutateTicks>() else {
            return Err(Fail::new("C12.no_tracker", "ServerMutateTicks resource missing although tracking is enabled".to_string()));
        };
        // newest tick of this session for which a mutate message was handed to the client (by order of sending)
        let newest = sim.mut_delivered[i].keys().copied().max_by_key(|t| sim.snap_seq.get(t).copied().unwrap_or(0));
        let Some(last) = newest else { continue };
        if ticks.last_tick().get() != last {
            return Err(Fail::new(
                "C12.last_tick_e2e",
                format!("client {i}: ServerMutateTicks::last_tick() is {} but the newest tick of this session with an applied mutate message is {last}", ticks.last_tick().get()),
            ));
        }
        for (&t, &n) in &sim.mut_sent[i] {
            if last.wrapping_sub(t) >= 64 {
                continue;
            }
            let delivered = sim.mut_delivered[i].get(&t).copied().unwrap_or(0);
            let complete = delivered == n;
            let fired = sim.tick_fired[i].get(&t).copied().unwrap_or(0);
            if complete && fired != 1 {
                return Err(Fail::new("C12.not_fired", format!("client {i}: all {n} messages of tick {t} were applied but the notification fired {fired} times")));
            }
            if !complete && fired != 0 {
                return Err(Fail::new("C12.fired_incomplete", format!("client {i}: tick {t} reported with {delivered} of {n} messages")));
            }
            let got = ticks.contains(RepliconTick::new(t));
            if got != complete {
                return Err(Fail::new(
                    "C12.contains_e2e",
                    format!("client {i}: ServerMutateTicks::contains({t}) = {got} with {delivered} of {n} messages delivered (last tick {last})"),
                ));
            }
        }
    }
    Ok(())
}

/// C07 / C09 at quiescence: a connected client that the authorization method admits is authorized again in every session
/// (with the protocol check: its hash was sent on this connection, too).
pub fn check_authorized_after_settle(sim: &mut Sim) -> Result<(), Fail> {
    for ci in 0..sim.clients.len() {
        if !sim.clients[ci].connected {
            continue;
        }
        let admitted = match sim.cfg.auth {
            0 => true,
            2 => sim.cfg.mismatch & (1 << ci) == 0,
            _ => false,
        };
        if admitted && !sim.authorized(ci) {
            return Err(Fail::new(
                "C07.match_not_authorized",
                format!("client {ci} (session {}) is connected, everything was delivered, but it is not authorized", sim.clients[ci].session),
            ));
        }
    }
    Ok(())
}
