//! Construction of the server / client `App`s exactly as a game (and the repository's tests) would.
use std::time::Duration;

use bevy::prelude::*;
use bevy::time::TimeUpdateStrategy;
use bevy_replicon::client::ServerUpdateTick;
use bevy_replicon::prelude::*;
use bevy_replicon::shared::replication::track_mutate_messages::TrackAppExt;
use bevy_replicon::shared::server_entity_map::ServerEntityMap;

use super::types::*;

/// What a client app observed: kind, seq, update tick at delivery, resolved entity.
#[derive(Resource, Default)]
pub struct ClientLog(pub Vec<(SK, u32, u32, Option<Entity>)>);
/// Set when the client was told about a protocol mismatch.
#[derive(Resource, Default)]
pub struct MismatchSeen(pub u32);
/// Client-direction emissions performed in `Update` of the next client frame (as game logic would).
#[derive(Resource, Default)]
pub struct CEmitQueue(pub Vec<(CK, u32, Option<Entity>, Option<Entity>)>);
/// (seq, expected to be sent, server entity it refers to)
#[derive(Resource, Default)]
pub struct CEmitLog(pub Vec<(u32, bool, Option<Entity>, Option<Entity>)>);
/// What the server app observed: kind, seq, sender, entity.
#[derive(Resource, Default)]
pub struct ServerLog(pub Vec<(CK, u32, Entity, Option<Entity>)>);
/// Server-direction emissions performed in `Update` of the next server frame.
#[derive(Resource, Default)]
pub struct SEmitQueue(pub Vec<(SK, u32, SendMode, Option<Entity>, Option<Entity>)>);
#[derive(Resource, Default)]
pub struct DisconnectRequests(pub Vec<Entity>);
/// `CList` events that reached server logic with a payload other than the one emitted for their sequence number.
#[derive(Resource, Default)]
pub struct BadPayload(pub Vec<String>);
/// Ticks for which the client reported `MutateTickReceived`.
#[derive(Resource, Default)]
pub struct TickLog(pub Vec<u32>);

fn client_emit(world: &mut World) {
    let q = std::mem::take(&mut world.resource_mut::<CEmitQueue>().0);
    for (kind, seq, sref, sref2) in q {
        let cref = sref.and_then(|s| world.resource::<ServerEntityMap>().to_client().get(&s).copied());
        let cref2 = sref2.and_then(|s| world.resource::<ServerEntityMap>().to_client().get(&s).copied());
        let mut expect = true;
        let mut refent = None;
        let mut refent2 = None;
        match kind {
            CK::Ev => {
                world.send_event(CEv(seq));
            }
            CK::Unord => {
                world.send_event(CUnord(seq));
            }
            CK::Unrel => {
                world.send_event(CUnrel(seq));
            }
            CK::List => {
                world.send_event(CList::of(seq));
            }
            CK::Unit => match (cref, cref2) {
                (Some(a), Some(b)) if a != b => {
                    world.client_trigger_targets(CUnit, vec![a, b]);
                }
                (Some(a), _) => {
                    world.client_trigger_targets(CUnit, a);
                }
                _ => {
                    world.client_trigger(CUnit);
                }
            },
            CK::Map => {
                let as_trigger = world.resource::<TrigMapMode>().0;
                let ent = match cref {
                    Some(ce) => {
                        refent = sref;
                        ce
                    }
                    None => {
                        // a local entity the server has never heard of: must not be sent
                        expect = false;
                        world.spawn_empty().id()
                    }
                };
                if as_trigger {
                    world.client_trigger(CTrigMap(seq, ent));
                } else {
                    world.send_event(CMap(seq, ent));
                }
            }
            CK::Trig => match cref {
                Some(ce) if cref2.is_some_and(|c2| c2 != ce) => {
                    world.client_trigger_targets(CTrig(seq), vec![ce, cref2.unwrap()]);
                    refent = sref;
                    refent2 = sref2;
                }
                Some(ce) => {
                    world.client_trigger_targets(CTrig(seq), ce);
                    refent = sref;
                }
                None if sref.is_some() => {
                    // the game targets a local entity the server has never heard of (e.g. its copy of an entity that is not
                    // replicated to it yet): "entity references are translated ... or the event is not sent"
                    let tmp = world.spawn_empty().id();
                    world.client_trigger_targets(CTrig(seq), tmp);
                    expect = false;
                }
                None => {
                    world.client_trigger(CTrig(seq));
                }
            },
        }
        world.resource_mut::<CEmitLog>().0.push((seq, expect, refent, refent2));
    }
}

fn server_emit(world: &mut World) {
    let q = std::mem::take(&mut world.resource_mut::<SEmitQueue>().0);
    for (kind, seq, mode, refent, refent2) in q {
        match kind {
            SK::Dep => {
                if world.resource::<TrigMapMode>().0 {
                    world.server_trigger(ToClients { mode, event: STrigMap(seq, refent.unwrap()) });
                } else {
                    world.send_event(ToClients { mode, event: SDep(seq, refent.unwrap()) });
                }
            }
            SK::Ind => {
                world.send_event(ToClients { mode, event: SInd(seq) });
            }
            SK::Unord => {
                world.send_event(ToClients { mode, event: SUnord(seq) });
            }
            SK::Unrel => {
                world.send_event(ToClients { mode, event: SUnrel(seq) });
            }
            SK::Trig => match refent {
                Some(r) if refent2.is_some() => world.server_trigger_targets(ToClients { mode, event: STrig(seq) }, vec![r, refent2.unwrap()]),
                Some(r) => world.server_trigger_targets(ToClients { mode, event: STrig(seq) }, r),
                None => world.server_trigger(ToClients { mode, event: STrig(seq) }),
            },
        }
    }
}

// ---- custom rule functions (`Cfg::custom_fns`): a variable-length encoding of `A` and a second, different one used by
// the overlapping rule. A client that decodes with the wrong function set, or a size computed from anything but the
// bytes actually written, shows up as a wrong value or a decode error.
use bevy_replicon::bytes::{Buf, Bytes};
use bevy_replicon::shared::replication::replication_registry::{
    ctx::{SerializeCtx, WriteCtx},
    rule_fns::{DeserializeFn, RuleFns},
};

fn ser_a(_: &SerializeCtx, a: &A, out: &mut Vec<u8>) -> Result<()> {
    out.extend_from_slice(&a.0.to_le_bytes());
    for _ in 0..(a.0 % 4) {
        out.push(0xA5);
    }
    Ok(())
}
fn de_a(_: &mut WriteCtx, m: &mut Bytes) -> Result<A> {
    if m.remaining() < 4 {
        return Err("A: short".into());
    }
    let v = m.get_u32_le();
    let pad = (v % 4) as usize;
    if m.remaining() < pad || m.chunk()[..pad].iter().any(|b| *b != 0xA5) {
        return Err("A: padding".into());
    }
    m.advance(pad);
    Ok(A(v))
}
fn de_a_in_place(de: DeserializeFn<A>, ctx: &mut WriteCtx, a: &mut A, m: &mut Bytes) -> Result<()> {
    a.0 = (de)(ctx, m)?.0;
    Ok(())
}
fn ser_a2(_: &SerializeCtx, a: &A, out: &mut Vec<u8>) -> Result<()> {
    out.push(0x5A);
    out.extend_from_slice(&a.0.to_be_bytes());
    Ok(())
}
fn de_a2(_: &mut WriteCtx, m: &mut Bytes) -> Result<A> {
    if m.remaining() < 5 || m.get_u8() != 0x5A {
        return Err("A (overlapping rule): tag".into());
    }
    Ok(A(m.get_u32()))
}

pub fn vis_policy(cfg: &Cfg) -> VisibilityPolicy {
    match cfg.vis {
        0 => VisibilityPolicy::All,
        1 => VisibilityPolicy::Blacklist,
        _ => VisibilityPolicy::Whitelist,
    }
}

/// Which part of the library an app is built with (`Cfg::split_plugins`): everything (every app of the repository's tests,
/// a listen server), a dedicated server (no client plugins), or a pure client (no server plugins).
#[derive(Clone, Copy, PartialEq, Eq, Debug)]
pub enum Role {
    Both,
    Server,
    Client,
}

pub fn make_app(cfg: &Cfg, mismatch: bool) -> App {
    make_app_role(cfg, mismatch, Role::Both)
}

pub fn make_app_role(cfg: &Cfg, mismatch: bool, role: Role) -> App {
    use bevy::app::PluginGroup;
    let mut app = App::new();
    let tick_policy = match cfg.policy {
        0 => TickPolicy::Manual,
        1 => TickPolicy::EveryFrame,
        _ => TickPolicy::MaxTickRate(30),
    };
    let auth_method = match cfg.auth {
        0 => AuthMethod::None,
        1 => AuthMethod::Custom,
        _ => AuthMethod::ProtocolCheck,
    };
    let server_plugin = ServerPlugin { tick_policy, visibility_policy: vis_policy(cfg), mutations_timeout: Duration::from_millis(cfg.timeout_ms.max(1)) };
    let group = RepliconPlugins.build().set(RepliconSharedPlugin { auth_method });
    let group = match role {
        Role::Both => group.set(server_plugin),
        Role::Server => group.set(server_plugin).disable::<ClientPlugin>().disable::<ClientEventPlugin>(),
        Role::Client => group.disable::<ServerPlugin>().disable::<ServerEventPlugin>(),
    };
    app.add_plugins((MinimalPlugins, group));
    let with_client = role != Role::Server;
    let with_server = role != Role::Client;
    // `sync_related_entities` is an extension trait of the server module (feature `server`): its observers read server
    // resources, so a pure client does not (and, built without that feature, cannot) call it
    let sync = cfg.sync && with_server;
    app.insert_resource(TimeUpdateStrategy::ManualDuration(Duration::from_millis(10)));
    if cfg.custom_fns == 0 {
        app.replicate::<A>();
    } else if cfg.custom_fns == 3 {
        app.replicate_with_priority(5, RuleFns::new(ser_a, de_a).with_in_place(de_a_in_place));
    } else {
        app.replicate_with(RuleFns::new(ser_a, de_a).with_in_place(de_a_in_place));
    }
    app.replicate::<B>().replicate::<C>().replicate_once::<O>().replicate_periodic::<P>(cfg.period.max(1));
    if cfg.custom_fns == 0 {
        app.replicate::<S>();
    } else {
        app.replicate_with((RuleFns::<S>::default(), SendRate::EveryTick));
    }
    if cfg.custom_fns >= 2 {
        app.replicate_with((RuleFns::new(ser_a2, de_a2), RuleFns::<S>::default()));
    }
    app.replicate::<Z>()
        .replicate::<R>()
        .replicate::<ChildOf>();
    if cfg.bundle {
        app.replicate_bundle::<(X, Y)>();
    }
    if cfg.markers {
        use bevy_replicon::shared::replication::{command_markers::MarkerConfig, replication_registry::command_fns};
        app.register_marker_with::<HistMarker>(MarkerConfig { need_history: true, ..Default::default() })
            .register_marker::<PlainMarker>()
            .set_marker_fns::<PlainMarker, A>(command_fns::default_write::<A>, command_fns::default_remove::<A>)
            .set_marker_fns::<PlainMarker, S>(command_fns::default_write::<S>, command_fns::default_remove::<S>);
        app.add_observer(|t: Trigger<OnAdd, Replicated>, mut commands: Commands| {
            commands.entity(t.target()).insert((HistMarker, PlainMarker));
        });
    }
    if cfg.owners {
        app.replicate::<OwnedBy>();
        if sync {
            app.sync_related_entities::<OwnedBy>();
        }
    }
    if sync {
        app.sync_related_entities::<ChildOf>();
    }
    if cfg.track {
        app.track_mutate_messages();
    }
    app.add_mapped_server_event::<SDep>(Channel::Ordered)
        .add_server_event::<SInd>(Channel::Ordered)
        .make_event_independent::<SInd>()
        .add_server_event::<SUnord>(Channel::Unordered)
        .add_server_event::<SUnrel>(Channel::Unreliable)
        .add_server_trigger::<STrig>(Channel::Ordered)
        .add_client_event::<CEv>(Channel::Ordered)
        .add_client_event::<CUnord>(Channel::Unordered)
        .add_client_event::<CUnrel>(Channel::Unreliable)
        .add_mapped_client_event::<CMap>(Channel::Ordered)
        .add_client_trigger::<CTrig>(Channel::Ordered)
        .add_client_event::<CList>(Channel::Ordered)
        .add_client_trigger::<CUnit>(Channel::Ordered)
        .add_mapped_server_trigger::<STrigMap>(Channel::Ordered)
        .add_mapped_client_trigger::<CTrigMap>(Channel::Ordered);
    app.insert_resource(TrigMapMode(cfg.trig_map));
    if cfg.client_variants {
        use bevy_replicon::shared::replication::replication_registry::command_fns;
        app.set_command_fns::<C>(command_fns::default_write::<C>, command_fns::default_remove::<C>);
        if with_client {
            app.init_resource::<bevy_replicon::client::ClientReplicationStats>();
        }
    }
    if mismatch {
        app.replicate::<Extra>();
    }
    app.init_resource::<ClientLog>()
        .init_resource::<ServerLog>()
        .init_resource::<CEmitQueue>()
        .init_resource::<CEmitLog>()
        .init_resource::<SEmitQueue>()
        .init_resource::<MismatchSeen>()
        .init_resource::<DisconnectRequests>()
        .init_resource::<BadPayload>()
        .init_resource::<TickLog>();
    if with_client {
    app.add_systems(
        PreUpdate,
        (|mut r: EventReader<bevy_replicon::client::server_mutate_ticks::MutateTickReceived>, mut log: ResMut<TickLog>| {
            for e in r.read() {
                log.0.push(e.tick.get());
            }
        })
        .after(ClientSet::Receive),
    );
    }
    app.add_systems(Update, (client_emit, server_emit));
    if with_client {
    app.add_systems(
        PreUpdate,
        (
            |mut r: EventReader<SDep>, mut log: ResMut<ClientLog>, t: Res<ServerUpdateTick>| {
                for e in r.read() {
                    log.0.push((SK::Dep, e.0, t.get(), Some(e.1)));
                }
            },
            |mut r: EventReader<SInd>, mut log: ResMut<ClientLog>, t: Res<ServerUpdateTick>| {
                for e in r.read() {
                    log.0.push((SK::Ind, e.0, t.get(), None));
                }
            },
            |mut r: EventReader<SUnord>, mut log: ResMut<ClientLog>, t: Res<ServerUpdateTick>| {
                for e in r.read() {
                    log.0.push((SK::Unord, e.0, t.get(), None));
                }
            },
            |mut r: EventReader<SUnrel>, mut log: ResMut<ClientLog>, t: Res<ServerUpdateTick>| {
                for e in r.read() {
                    log.0.push((SK::Unrel, e.0, t.get(), None));
                }
            },
        )
            .after(ClientSet::Receive),
    );
    app.add_observer(|tr: Trigger<STrigMap>, mut log: ResMut<ClientLog>, t: Res<ServerUpdateTick>| {
        log.0.push((SK::Dep, tr.event().0, t.get(), Some(tr.event().1)));
    });
    app.add_observer(|tr: Trigger<STrig>, mut log: ResMut<ClientLog>, t: Res<ServerUpdateTick>| {
        let target = tr.target();
        log.0.push((SK::Trig, tr.event().0, t.get(), (target != Entity::PLACEHOLDER).then_some(target)));
    });
    }
    if with_server {
    app.add_systems(
        PreUpdate,
        (
            |mut r: EventReader<FromClient<CEv>>, mut log: ResMut<ServerLog>| {
                for e in r.read() {
                    log.0.push((CK::Ev, e.event.0, e.client, None));
                }
            },
            |mut r: EventReader<FromClient<CUnord>>, mut log: ResMut<ServerLog>| {
                for e in r.read() {
                    log.0.push((CK::Unord, e.event.0, e.client, None));
                }
            },
            |mut r: EventReader<FromClient<CUnrel>>, mut log: ResMut<ServerLog>| {
                for e in r.read() {
                    log.0.push((CK::Unrel, e.event.0, e.client, None));
                }
            },
            |mut r: EventReader<FromClient<CMap>>, mut log: ResMut<ServerLog>| {
                for e in r.read() {
                    log.0.push((CK::Map, e.event.0, e.client, Some(e.event.1)));
                }
            },
            |mut r: EventReader<FromClient<CList>>, mut log: ResMut<ServerLog>, mut bad: ResMut<BadPayload>| {
                for e in r.read() {
                    if e.event != CList::of(e.event.0) {
                        bad.0.push(format!("{:?}", e.event));
                    }
                    log.0.push((CK::List, e.event.0, e.client, None));
                }
            },
            |mut r: EventReader<DisconnectRequest>, mut log: ResMut<DisconnectRequests>| {
                for e in r.read() {
                    log.0.push(e.client);
                }
            },
        )
            .after(ServerSet::Receive),
    );
    app.add_observer(|tr: Trigger<FromClient<CTrigMap>>, mut log: ResMut<ServerLog>| {
        log.0.push((CK::Map, tr.event().event.0, tr.event().client, Some(tr.event().event.1)));
    });
    app.add_observer(|tr: Trigger<FromClient<CUnit>>, mut log: ResMut<ServerLog>| {
        let target = tr.target();
        log.0.push((CK::Unit, 0, tr.event().client, (target != Entity::PLACEHOLDER).then_some(target)));
    });
    app.add_observer(|tr: Trigger<FromClient<CTrig>>, mut log: ResMut<ServerLog>| {
        let target = tr.target();
        log.0.push((CK::Trig, tr.event().event.0, tr.event().client, (target != Entity::PLACEHOLDER).then_some(target)));
    });
    }
    if cfg.auth == 2 {
        app.add_observer(|_tr: Trigger<ProtocolMismatch>, mut seen: ResMut<MismatchSeen>| {
            seen.0 += 1;
        });
    }
    app.finish();
    app
}
