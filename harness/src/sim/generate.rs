//! Generators: configurations and step sequences per profile, and the case runner shared by the engine properties.
use proptest::prelude::*;
use serde::{Deserialize, Serialize};

use super::oracle;
use super::*;
use crate::common::{Outcome, guarded};

#[derive(Clone, Copy, Debug, PartialEq, Eq, Serialize, Deserialize)]
pub enum Profile {
    /// everything replication-related, perfect-ish link
    General,
    /// loss / reordering heavy
    Lossy,
    /// structural steps, several frames per tick
    Structural,
    /// visibility lists
    Vis,
    /// disconnects / restarts
    Faults,
    /// pre-spawned entities
    Prespawn,
    /// periodic components (dedicated profile, finding F4)
    Periodic,
    /// events on top of replication
    Events,
    /// authorization
    Auth,
    /// relationship graphs
    Related,
    /// mutate-message tracking on, small messages, loss heavy (C12 end to end)
    Tracked,
    /// one tick's mutations split into several messages that are delivered / lost individually
    Split,
    /// few slots, few component kinds, many frames without a tick: operations collide on the same entity
    Tight,
    /// loss-heavy histories with frequent disconnects / reconnects / restarts
    Sessions,
    /// events with three clients whose update progress differs
    Events3,
    /// server ticks around 2^31 / 2^32: start offsets, gaps around the 64-tick window, jumps of 2^30
    Wrap,
}

impl Profile {
    pub fn name(self) -> &'static str {
        match self {
            Profile::General => "general",
            Profile::Lossy => "lossy",
            Profile::Structural => "structural",
            Profile::Vis => "vis",
            Profile::Faults => "faults",
            Profile::Prespawn => "prespawn",
            Profile::Periodic => "periodic",
            Profile::Events => "events",
            Profile::Auth => "auth",
            Profile::Related => "related",
            Profile::Tracked => "tracked",
            Profile::Split => "split",
            Profile::Tight => "tight",
            Profile::Sessions => "sessions",
            Profile::Events3 => "events3",
            Profile::Wrap => "wrap",
        }
    }
    pub fn from_name(s: &str) -> Option<Self> {
        [
            Profile::General,
            Profile::Lossy,
            Profile::Structural,
            Profile::Vis,
            Profile::Faults,
            Profile::Prespawn,
            Profile::Periodic,
            Profile::Events,
            Profile::Auth,
            Profile::Related,
            Profile::Tracked,
            Profile::Split,
            Profile::Tight,
            Profile::Sessions,
            Profile::Events3,
            Profile::Wrap,
        ]
        .into_iter()
        .find(|p| p.name() == s)
    }
}

fn k_strategy() -> impl Strategy<Value = K> {
    (0..KS.len()).prop_map(|i| KS[i])
}
fn sk() -> impl Strategy<Value = SK> {
    prop_oneof![Just(SK::Dep), Just(SK::Ind), Just(SK::Unord), Just(SK::Unrel), Just(SK::Trig)]
}
fn ck() -> impl Strategy<Value = CK> {
    prop_oneof![Just(CK::Ev), Just(CK::Unord), Just(CK::Unrel), Just(CK::Map), Just(CK::Trig), Just(CK::List)]
}

/// Start offsets just below the points where the varint encoding of a tick grows by a byte (encodings of ticks are part
/// of every message; per-client ticks on both sides of such a point are a boundary class of their own).
fn varint_edge_start() -> BoxedStrategy<u32> {
    prop_oneof![
        4 => Just(0u32),
        2 => 90u32..127,
        2 => 16_330u32..16_383,
        2 => 2_097_100u32..2_097_151,
        2 => 268_435_400u32..268_435_455,
    ]
    .boxed()
}

/// Acknowledgements "naming unknown messages": indices far above anything a session of this length can have issued
/// (a per-client counter that starts at 0), optionally followed by an incomplete varint. Arbitrary bytes are C06's
/// business; an acknowledgement that happens to name a LIVE message the client never received is a lie of that
/// client about its own state, not an unknown index, and is not generated.
pub fn junk_ack_bytes() -> BoxedStrategy<Vec<u8>> {
    (proptest::collection::vec(20_000u32..60_000, 0..4), any::<bool>())
        .prop_map(|(vals, dangling)| {
            let mut out = Vec::new();
            for mut v in vals {
                loop {
                    let b = (v & 0x7f) as u8;
                    v >>= 7;
                    if v == 0 {
                        out.push(b);
                        break;
                    }
                    out.push(b | 0x80);
                }
            }
            if dangling {
                out.push(0x80);
            }
            out
        })
        .boxed()
}

pub fn cfg_strategy(p: Profile, thorough: bool) -> BoxedStrategy<Cfg> {
    // a second relationship type in half of the configurations that have hierarchies
    let offset = prop_oneof![6 => Just(0u16), 3 => 40u16..70, 1 => 8170u16..8200];
    let fns = prop_oneof![5 => Just(0u8), 2 => Just(1u8), 2 => Just(2u8), 1 => Just(3u8)];
    let inner = (cfg_strategy_inner(p, thorough), any::<bool>(), offset, proptest::bool::weighted(0.3), fns, proptest::bool::weighted(0.3), proptest::bool::weighted(0.4), proptest::bool::weighted(0.4), proptest::bool::weighted(0.3))
        .prop_map(move |(c, o, entity_offset, markers, custom_fns, split_plugins, noise, trig_map, client_variants)| Cfg { noise, trig_map, client_variants, split_plugins, owners: (o || matches!(p, Profile::Related)) && c.children, entity_offset, markers, custom_fns, ..c })
        .boxed();
    if matches!(p, Profile::Events | Profile::Events3 | Profile::Sessions | Profile::Auth | Profile::Lossy | Profile::Split | Profile::Tracked) {
        (inner, varint_edge_start())
            .prop_map(move |(c, st)| {
                if c.policy == 0 {
                    // high start ticks also allow one `ToWrap` step: the counter wraps with events / tracking / loss in flight
                    let big_jumps = c.big_jumps || (st >= (1 << 16) && c.vis == 0 && matches!(p, Profile::Events3 | Profile::Tracked | Profile::Lossy | Profile::Events));
                    Cfg { start_tick: st, big_jumps, ..c }
                } else {
                    c
                }
            })
            .boxed()
    } else {
        inner
    }
}

fn cfg_strategy_inner(p: Profile, thorough: bool) -> BoxedStrategy<Cfg> {
    let sizes = prop_oneof![Just(60usize), Just(200), Just(1200)];
    let base = (
        // a fourth client in one configuration of ten (profiles that cap the number of clients keep their cap)
        prop_oneof![3 => Just(1usize), 3 => Just(2usize), 3 => Just(3usize), 1 => Just(4usize)],
        proptest::collection::vec(sizes, 4),
        prop_oneof![4 => Just(0u8), 1 => Just(1u8), 1 => Just(2u8)],
        if thorough { 4usize..=8 } else { 4usize..=6 },
        any::<bool>(),
        any::<bool>(),
        any::<bool>(),
        2u32..=4,
        any::<bool>(),
    );
    base.prop_flat_map(move |(clients, max_size, policy, slots, b1, b2, b3, period, b4)| {
        let mut c = Cfg { clients, max_size, policy, slots, period, ..Cfg::default() };
        c.bundle = b4 && matches!(p, Profile::General | Profile::Structural | Profile::Vis | Profile::Lossy | Profile::Faults);
        let vis = prop_oneof![Just(0u8), Just(1u8), Just(2u8)];
        match p {
            Profile::General => {
                c.refs = b1;
                c.children = b2;
                c.sync = b2 && b3;
                c.big = b3;
                vis.prop_map(move |v| Cfg { vis: v, ..c.clone() }).boxed()
            }
            Profile::Lossy => {
                c.big = b1;
                c.track = b2;
                c.policy = 0;
                c.timeout_ms = if b3 { 30 } else { 10_000 };
                vis.prop_map(move |v| Cfg { vis: v, ..c.clone() }).boxed()
            }
            Profile::Structural => {
                c.policy = 0;
                c.refs = true;
                c.children = b1;
                c.sync = b1 && b2;
                prop_oneof![3 => Just(0u8), 1 => Just(1u8), 1 => Just(2u8)].prop_map(move |v| Cfg { vis: v, ..c.clone() }).boxed()
            }
            Profile::Vis => {
                c.clients = c.clients.max(2);
                c.connect_all = b3;
                c.big = b1;
                c.refs = b2;
                c.children = b1 && b3;
                prop_oneof![Just(1u8), Just(2u8)].prop_map(move |v| Cfg { vis: v, ..c.clone() }).boxed()
            }
            Profile::Faults => {
                c.faults = true;
                c.events = b1;
                c.refs = b2;
                c.children = b3;
                c.sync = b3;
                (vis, prop_oneof![3 => Just(0u8), 1 => Just(2u8)]).prop_map(move |(v, a)| Cfg { vis: v, auth: a, ..c.clone() }).boxed()
            }
            Profile::Prespawn => {
                c.prespawn = true;
                c.faults = b1 && b2;
                // references to entities whose mapping travels in the same tick (a reference never precedes the mapping: the
                // server entity is created by the PreSpawn step itself)
                c.refs = b3;
                (vis, prop_oneof![3 => Just(0u8), 1 => Just(1u8)]).prop_map(move |(v, a)| Cfg { vis: v, auth: a, ..c.clone() }).boxed()
            }
            Profile::Periodic => {
                c.periodic = true;
                vis.prop_map(move |v| Cfg { vis: v, ..c.clone() }).boxed()
            }
            Profile::Events => {
                c.events = true;
                c.clients = c.clients.max(2);
                c.faults = b1;
                // hierarchies: a recursive despawn ends several entities that events may still refer to
                c.children = b2;
                (prop_oneof![2 => Just(0u8), 2 => Just(1u8)], prop_oneof![3 => Just(0u8), 1 => Just(1u8), 1 => Just(2u8)])
                    .prop_map(move |(a, v)| Cfg { auth: a, vis: v, ..c.clone() })
                    .boxed()
            }
            Profile::Auth => {
                c.events = true;
                c.faults = b1;
                // relationship groups that exist before a client is authorized
                c.children = b2;
                c.sync = b2 && b3;
                (prop_oneof![1 => Just(0u8), 3 => Just(1u8), 3 => Just(2u8)], 0u8..8, vis)
                    .prop_map(move |(a, m, v)| Cfg { auth: a, mismatch: if a != 0 { m & 0b101 } else { 0 }, vis: v, ..c.clone() })
                    .boxed()
            }
            Profile::Split => {
                c.big = true;
                c.policy = 0;
                c.max_size = vec![60, if b1 { 60 } else { 200 }, 60];
                c.track = b2 && b3;
                c.children = b3;
                c.sync = b3;
                c.vis = 0;
                c.clients = c.clients.min(2);
                c.timeout_ms = if b2 { 30 } else { 10_000 };
                Just(c).boxed()
            }
            Profile::Tight => {
                c.policy = 0;
                c.slots = 3;
                c.refs = b1;
                c.clients = c.clients.min(2);
                // both clients there from the start in half of the cases: with a visibility list their update ticks diverge
                // (an update message that only one of them gets), while mutations of one tick go to both
                c.connect_all = b2;
                prop_oneof![2 => Just(0u8), 1 => Just(1u8), 1 => Just(2u8)].prop_map(move |v| Cfg { vis: v, ..c.clone() }).boxed()
            }
            Profile::Sessions => {
                c.faults = true;
                c.policy = 0;
                c.big = b1;
                c.events = b2;
                c.children = b3;
                c.sync = b3;
                c.track = b3 && b1;
                c.clients = c.clients.min(2);
                c.vis = 0;
                Just(c).boxed()
            }
            Profile::Wrap => {
                c.policy = 0;
                c.big_jumps = true;
                c.track = b1;
                c.big = b2;
                c.refs = b3;
                c.vis = 0;
                prop_oneof![
                    Just(0u32),
                    Just(1u32 << 30),
                    Just((1u32 << 30) + 40),
                    (0u32..(1 << 31) - (1 << 21)),
                ]
                .prop_map(move |st| Cfg { start_tick: st, ..c.clone() })
                .boxed()
            }
            Profile::Events3 => {
                c.events = true;
                c.clients = 3;
                c.policy = 0;
                c.children = b3;
                c.connect_all = b1 || b2;
                prop_oneof![1 => Just(0u8), 2 => Just(2u8), 1 => Just(1u8)].prop_map(move |v| Cfg { vis: v, ..c.clone() }).boxed()
            }
            Profile::Tracked => {
                c.track = true;
                c.big = true;
                c.policy = 0;
                c.children = b1;
                c.sync = b1 && b2;
                if b3 {
                    c.max_size[0] = 60;
                }
                Just(c).boxed()
            }
            Profile::Related => {
                c.children = true;
                c.sync = true;
                c.big = b1;
                c.track = b2;
                c.vis = 0;
                Just(c).boxed()
            }
        }
    })
    .boxed()
}

pub fn step_strategy(cfg: &Cfg, p: Profile) -> BoxedStrategy<Step> {
    let slots = cfg.slots;
    let clients = cfg.clients;
    let lossy = matches!(p, Profile::Lossy | Profile::Tracked | Profile::Split | Profile::Sessions);
    let structural = matches!(p, Profile::Structural | Profile::Tight);
    let split = matches!(p, Profile::Split);
    let tight = matches!(p, Profile::Tight);
    let sessions = matches!(p, Profile::Sessions);
    let mut kinds: Vec<K> = if tight { vec![K::A, K::B, K::S] } else if split { vec![K::A, K::C, K::C] } else { KS.to_vec() };
    if cfg.bundle {
        kinds.extend([K::X, K::Y, K::X, K::Y]);
    }
    let k_strategy = move || {
        let kinds = kinds.clone();
        (0..kinds.len()).prop_map(move |i| kinds[i])
    };
    let w = |on: bool, w: u32| if on { w } else { 0 };
    let mut v: Vec<(u32, BoxedStrategy<Step>)> = vec![
        (if matches!(p, Profile::Related) { 10 } else { 4 }, (0..slots, proptest::collection::vec(k_strategy(), 0..4)).prop_map(|(slot, comps)| Step::Spawn { slot, marked: true, comps }).boxed()),
        (1, (0..slots, proptest::collection::vec(k_strategy(), 0..4)).prop_map(|(slot, comps)| Step::Spawn { slot, marked: false, comps }).boxed()),
        (2, (0..slots).prop_map(|slot| Step::Despawn { slot }).boxed()),
        (2, (0..slots, any::<bool>()).prop_map(|(slot, on)| Step::Marker { slot, on }).boxed()),
        (1, (0..slots).prop_map(|slot| Step::Remark { slot }).boxed()),
        (if structural { 8 } else { 4 }, (0..slots, k_strategy()).prop_map(|(slot, k)| Step::Insert { slot, k }).boxed()),
        (if structural { 8 } else { 4 }, (0..slots, k_strategy()).prop_map(|(slot, k)| Step::Remove { slot, k }).boxed()),
        (if split { 16 } else if lossy { 12 } else { 8 }, (0..slots, k_strategy()).prop_map(|(slot, k)| Step::Mutate { slot, k }).boxed()),
        (if split { 4 } else { 0 }, (0..slots, prop_oneof![4 => 0u16..48, 1 => 100u16..300]).prop_map(|(slot, len)| Step::Resize { slot, len }).boxed()),
        (if split { 8 } else if tight { 3 } else if lossy { 1 } else { 0 }, k_strategy().prop_map(|k| Step::MutateAll { k }).boxed()),
        (if split { 3 } else if lossy { 2 } else { 0 }, (3u8..10).prop_map(|n| Step::IdleFrames { n }).boxed()),
        (if lossy { 1 } else { 0 }, (1u8..13).prop_map(|secs| Step::LongFrame { secs }).boxed()),
        (
            if cfg.policy == 0 { 10 } else { 6 },
            if tight { prop_oneof![1 => Just(true), 1 => Just(false)].boxed() } else { prop_oneof![2 => Just(true), 1 => Just(false)].boxed() }
                .prop_map(|tick| Step::ServerFrame { tick })
                .boxed(),
        ),
        (8, (0..clients).prop_map(|client| Step::ClientFrame { client }).boxed()),
        (6, (0..clients, 1..3usize).prop_map(|(client, n)| Step::DeliverUpd { client, n }).boxed()),
        (if split { 2 } else { 8 }, (0..clients, any::<u16>()).prop_map(|(client, idx)| Step::DeliverMut { client, idx }).boxed()),
        (if split { 1 } else if lossy { 5 } else { 2 }, (0..clients, any::<u16>()).prop_map(|(client, idx)| Step::DropMut { client, idx }).boxed()),
        (if split { 14 } else if lossy { 2 } else if cfg.prespawn && cfg.refs { 3 } else { 0 }, (0..clients, any::<u8>(), any::<bool>()).prop_map(|(client, mask, ack)| Step::PartialMut { client, mask, ack }).boxed()),
        (if lossy { 4 } else { 6 }, (0..clients, 1..3usize).prop_map(|(client, n)| Step::DeliverAck { client, n }).boxed()),
        (if tight || lossy || matches!(p, Profile::Vis) { 3 } else { 1 }, (0..clients, any::<bool>(), any::<bool>()).prop_map(|(client, rev, ack)| Step::MutFirst { client, rev, ack }).boxed()),
        (2, (0..clients).prop_map(|client| Step::Connect { client }).boxed()),
    ];
    let wrap = matches!(p, Profile::Wrap);
    v.push((
        w(cfg.policy == 0, if wrap { 5 } else if sessions { 3 } else if lossy || cfg.events { 1 } else { 0 }),
        prop_oneof![3 => 2u8..12, 2 => 60u8..70, 1 => 70u8..200].prop_map(|by| Step::TickJump { by }).boxed(),
    ));
    v.push((w(wrap, 2), any::<u8>().prop_map(|fine| Step::BigJump { fine }).boxed()));
    v.push((w(cfg.big_jumps && cfg.start_tick >= (1 << 16), if wrap { 2 } else { 5 }), (3u8..10).prop_map(|before| Step::ToWrap { before }).boxed()));
    v.push((w(cfg.timeout_ms <= 100 && cfg.policy == 0, if split { 5 } else { 2 }), (0..clients, 0..slots, k_strategy(), any::<u8>()).prop_map(|(client, slot, k, mask)| Step::TimeoutEpisode { client, slot, k, mask }).boxed()));
    v.push((w(cfg.noise, 4), (0..slots, any::<bool>(), any::<bool>()).prop_map(|(slot, on, sparse)| Step::Noise { slot, on, sparse }).boxed()));
    v.push((w(cfg.noise, 3), (0..clients, 0..slots, any::<bool>()).prop_map(|(client, slot, on)| Step::ClientNoise { client, slot, on }).boxed()));
    v.push((w(cfg.noise, 3), (0..slots, k_strategy()).prop_map(|(slot, k)| Step::Touch { slot, k }).boxed()));
    v.push((w(cfg.refs, if cfg.prespawn { 8 } else { 3 }), (0..slots, 0..slots).prop_map(|(slot, target)| Step::SetRef { slot, target }).boxed()));
    v.push((w(cfg.refs, 1), (0..slots).prop_map(|slot| Step::DelRef { slot }).boxed()));
    v.push((w(cfg.refs && !cfg.prespawn, 3), (0..slots, 0..slots).prop_map(|(holder, target)| Step::ForwardRef { holder, target }).boxed()));
    v.push((w(cfg.children, 4), (0..slots, 0..slots).prop_map(|(slot, parent)| Step::SetParent { slot, parent }).boxed()));
    v.push((w(cfg.children, 2), (0..slots).prop_map(|slot| Step::DelParent { slot }).boxed()));
    v.push((w(cfg.owners, 8), (0..slots, 0..slots).prop_map(|(slot, owner)| Step::SetOwner { slot, owner }).boxed()));
    v.push((w(cfg.owners, 1), (0..slots).prop_map(|slot| Step::DelOwner { slot }).boxed()));
    v.push((w(cfg.vis != 0, 6), (0..clients, 0..slots, any::<bool>()).prop_map(|(client, slot, visible)| Step::Vis { client, slot, visible }).boxed()));
    v.push((
        w(cfg.vis != 0, if matches!(p, Profile::Vis) { 4 } else { 1 }),
        (0..clients, 0..slots, proptest::collection::vec(any::<bool>(), 2..5)).prop_map(|(client, slot, pattern)| Step::VisBurst { client, slot, pattern }).boxed(),
    ));
    v.push((w(cfg.vis != 0 && clients >= 2, if tight || matches!(p, Profile::Vis) { 4 } else { 2 }), (0..slots, k_strategy(), any::<bool>()).prop_map(|(slot, k, rev)| Step::DivergeEpisode { slot, k, rev }).boxed()));
    v.push((
        w(cfg.prespawn, 4),
        (0..clients, 0..slots, proptest::bool::weighted(0.2), any::<bool>(), proptest::bool::weighted(0.35), if cfg.refs { proptest::option::weighted(0.5, 0..slots).boxed() } else { Just(None).boxed() })
            .prop_map(|(client, slot, kill, gap, early, refer)| Step::PreSpawn { client, slot, kill, gap, early, refer })
            .boxed(),
    ));
    v.push((w(cfg.faults, if sessions { 4 } else { 1 }), (0..clients).prop_map(|client| Step::Disconnect { client }).boxed()));
    v.push((w(cfg.faults, if sessions { 3 } else { 1 }), (0..clients).prop_map(|client| Step::DisconnectLate { client }).boxed()));
    v.push((w(sessions, 4), (0..clients).prop_map(|client| Step::Connect { client }).boxed()));
    v.push((
        w(cfg.faults, 4),
        (0..clients, 0..slots, 0u8..16, proptest::bool::weighted(0.4)).prop_map(|(client, slot, what, restart)| Step::FaultEpisode { client, slot, what, restart }).boxed(),
    ));
    v.push((w(cfg.faults, 2), prop_oneof![2 => Just(Step::ServerRestart), 2 => Just(Step::ServerStop), 1 => Just(Step::ServerStopAbrupt), 3 => Just(Step::ServerStart)].boxed()));
    v.push((w(cfg.auth == 1, 3), (0..clients).prop_map(|client| Step::Authorize { client }).boxed()));
    v.push((
        w(lossy, 1),
        (0..clients, junk_ack_bytes()).prop_map(|(client, bytes)| Step::JunkAck { client, bytes }).boxed(),
    ));
    if cfg.events {
        v.push((if matches!(p, Profile::Events3) { 8 } else { 3 }, (0..clients).prop_map(|client| Step::EventsFirst { client }).boxed()));
        v.push((4, (0..clients).prop_map(|client| Step::EventsOnly { client }).boxed()));
        v.push((
            8,
            (sk(), 0u8..3, 0..clients, 0..slots, proptest::option::weighted(0.5, 0..slots)).prop_map(|(kind, mode, target, refslot, refslot2)| Step::EmitS { kind, mode, target, refslot, refslot2 }).boxed(),
        ));
        v.push((5, (0..clients, ck(), 0..slots, proptest::option::weighted(0.5, 0..slots)).prop_map(|(client, kind, refslot, refslot2)| Step::EmitC { client, kind, refslot, refslot2 }).boxed()));
        v.push((10, (0..clients, any::<u16>(), any::<u16>()).prop_map(|(client, chan, idx)| Step::DeliverSEv { client, chan, idx }).boxed()));
        v.push((1, (0..clients, any::<u16>(), any::<u16>()).prop_map(|(client, chan, idx)| Step::DropSEv { client, chan, idx }).boxed()));
        v.push((7, (0..clients, any::<u16>(), any::<u16>()).prop_map(|(client, chan, idx)| Step::DeliverCEv { client, chan, idx }).boxed()));
        v.push((1, (0..clients, any::<u16>(), any::<u16>()).prop_map(|(client, chan, idx)| Step::DropCEv { client, chan, idx }).boxed()));
    } else if cfg.auth == 2 {
        v.push((4, (0..clients, any::<u16>(), any::<u16>()).prop_map(|(client, chan, idx)| Step::DeliverCEv { client, chan, idx }).boxed()));
        v.push((2, (0..clients, any::<u16>(), any::<u16>()).prop_map(|(client, chan, idx)| Step::DeliverSEv { client, chan, idx }).boxed()));
        // the link may lose whatever travels on a channel declared unreliable (on the unchanged tree the handshake does not)
        v.push((2, (0..clients, any::<u16>(), any::<u16>()).prop_map(|(client, chan, idx)| Step::DropCEv { client, chan, idx }).boxed()));
        v.push((1, (0..clients, any::<u16>(), any::<u16>()).prop_map(|(client, chan, idx)| Step::DropSEv { client, chan, idx }).boxed()));
    }
    let v: Vec<_> = v.into_iter().filter(|(w, _)| *w > 0).collect();
    proptest::strategy::Union::new_weighted(v).boxed()
}

pub fn case_strategy(p: Profile, thorough: bool) -> BoxedStrategy<Case> {
    let max_len = if thorough { 120 } else { 80 };
    cfg_strategy(p, thorough)
        .prop_flat_map(move |cfg| {
            let st = step_strategy(&cfg, p);
            (Just(cfg), proptest::collection::vec(st, 1..max_len))
        })
        .prop_map(|(cfg, steps)| Case { cfg, steps })
        .boxed()
}

/// Runs one case: initial connects, generated steps, quiescence, final oracles.
pub fn run_case(id: &'static str, case: &Case, or: Oracles, nontrivial: fn(&Sim) -> bool) -> Outcome {
    guarded(id, || {
        let mut sim = Sim::new(&case.cfg, or);
        // client 0 is there from the start; the others join when the history says so
        sim.connect(0);
        if case.cfg.auth == 1 && !(or.unauth) {
            sim.authorize(0);
        }
        if case.cfg.connect_all {
            for i in 1..case.cfg.clients {
                sim.connect(i);
                if case.cfg.auth == 1 && !(or.unauth) {
                    sim.authorize(i);
                }
            }
        }
        let debug = std::env::var("VH_DEBUG").is_ok();
        for st in &case.steps {
            sim.step(st);
            if debug {
                eprintln!("{st:?} -> tick {} flags {:?} fail {:?}", sim.tick(), sim.flags, sim.fail);
                for (i, c) in sim.clients.iter().enumerate() {
                    eprintln!("   client {i}: s2c {:?} c2s {:?}", c.s2c.iter().map(|q| q.len()).collect::<Vec<_>>(), c.c2s.iter().map(|q| q.len()).collect::<Vec<_>>());
                }
            }
            if sim.fail.is_some() {
                break;
            }
        }
        let mut fail = sim.fail.take();
        if fail.is_none() {
            sim.settle();
            fail = sim.fail.take();
        }
        if fail.is_none() && (or.session || or.unauth) {
            fail = oracle::check_authorized_after_settle(&mut sim).err();
        }
        if fail.is_none() && or.converge {
            fail = oracle::check_converged(&mut sim).err();
        }
        if fail.is_none() && or.ev_once {
            fail = oracle::check_events_final(&mut sim).err();
        }
        if fail.is_none() && or.unauth {
            fail = oracle::check_auth_final(&mut sim).err();
        }
        if fail.is_none() && or.mutate_ticks {
            fail = oracle::check_mutate_ticks_final(&mut sim).err();
        }
        if fail.is_none() && or.silence {
            fail = oracle::check_silence(&mut sim).err();
        }
        let mut out = Outcome { fail, nontrivial: nontrivial(&sim), classes: sim.flags.iter().copied().collect(), excluded: Vec::new() };
        out.excluded = sim.excluded.iter().map(|(k, v)| (*k, *v)).collect();
        out
    })
}
