//! Component / event pool, configuration and step language of the simulation engine.
use bevy::ecs::entity::MapEntities;
use bevy::prelude::*;
use serde::{Deserialize, Serialize};

#[derive(Component, Serialize, Deserialize, Clone, PartialEq, Debug)]
pub struct A(pub u32);
#[derive(Component, Serialize, Deserialize, Clone, PartialEq, Debug)]
#[component(immutable)]
pub struct B(pub u32);
/// Variable-length payload; the first 8 bytes are a per-write secret (C08).
#[derive(Component, Serialize, Deserialize, Clone, PartialEq, Debug)]
pub struct C(pub u32, pub Vec<u8>);
#[derive(Component, Serialize, Deserialize, Clone, PartialEq, Debug)]
pub struct O(pub u32);
#[derive(Component, Serialize, Deserialize, Clone, PartialEq, Debug)]
pub struct P(pub u32);
#[derive(Component, Serialize, Deserialize, Clone, PartialEq, Debug)]
#[component(storage = "SparseSet")]
pub struct S(pub u32);
#[derive(Component, Serialize, Deserialize, Clone, PartialEq, Debug)]
pub struct R(#[entities] pub Entity);
#[derive(Component)]
pub struct HistMarker;
#[derive(Component)]
pub struct PlainMarker;
/// A zero-sized component: its serialized form is empty (zero-length ranges in the change bookkeeping).
#[derive(Component, Serialize, Deserialize, Clone, PartialEq, Debug)]
pub struct Z;
/// A second relationship next to `ChildOf` (no forest constraint, no recursive despawn): with `Cfg::sync` both are registered
/// for synchronized replication, so groups are the connected components of the union of both graphs.
#[derive(Component, Serialize, Deserialize, Clone, PartialEq, Debug)]
#[relationship(relationship_target = Owns)]
pub struct OwnedBy(pub Entity);
#[derive(Component, Default, Debug)]
#[relationship_target(relationship = OwnedBy)]
pub struct Owns(Vec<Entity>);
/// `X` and `Y` are covered by ONE rule, `replicate_bundle::<(X, Y)>()`: replicated only while an entity has both.
#[derive(Component, Serialize, Deserialize, Clone, PartialEq, Debug)]
pub struct X(pub u32);
#[derive(Component, Serialize, Deserialize, Clone, PartialEq, Debug)]
pub struct Y(pub u32);
/// Never registered for replication: a game's own bookkeeping on replicated entities (table / sparse-set storage). Inserting or
/// removing one moves the entity to another archetype with the same replicated components.
#[derive(Component, Clone, PartialEq, Debug)]
pub struct N(pub u32);
#[derive(Component, Clone, PartialEq, Debug)]
#[component(storage = "SparseSet")]
pub struct NS(pub u32);
/// Only registered on clients with a deliberately different protocol.
#[derive(Component, Serialize, Deserialize, Clone, PartialEq, Debug)]
pub struct Extra(pub u32);

#[derive(Clone, Copy, Debug, PartialEq, Eq, PartialOrd, Ord, Hash, Serialize, Deserialize)]
pub enum K {
    A,
    B,
    C,
    O,
    P,
    S,
    /// the two parts of the bundle rule (only with `Cfg::bundle`)
    X,
    Y,
    /// zero-sized
    Z,
}
pub const KS: [K; 7] = [K::A, K::B, K::C, K::O, K::P, K::S, K::Z];

// ---- server -> client events
#[derive(Event, Serialize, Deserialize, Clone, Debug, MapEntities)]
pub struct SDep(pub u32, #[entities] pub Entity);
#[derive(Event, Serialize, Deserialize, Clone, Debug)]
pub struct SInd(pub u32);
#[derive(Event, Serialize, Deserialize, Clone, Debug)]
pub struct SUnord(pub u32);
#[derive(Event, Serialize, Deserialize, Clone, Debug)]
pub struct SUnrel(pub u32);
#[derive(Event, Serialize, Deserialize, Clone, Debug)]
pub struct STrig(pub u32);
/// A server trigger whose PAYLOAD holds an entity (`add_mapped_server_trigger`); with `Cfg::trig_map` it carries the
/// dependent mapped emissions (`SK::Dep`) instead of the event `SDep`.
#[derive(Event, Serialize, Deserialize, Clone, Debug, MapEntities)]
pub struct STrigMap(pub u32, #[entities] pub Entity);
/// A client trigger whose payload holds an entity (`add_mapped_client_trigger`); with `Cfg::trig_map` it carries `CK::Map`.
#[derive(Event, Serialize, Deserialize, Clone, Debug, MapEntities)]
pub struct CTrigMap(pub u32, #[entities] pub Entity);
/// copy of `Cfg::trig_map` for the emitting systems
#[derive(Resource, Default)]
pub struct TrigMapMode(pub bool);
// ---- client -> server events
#[derive(Event, Serialize, Deserialize, Clone, Debug)]
pub struct CEv(pub u32);
#[derive(Event, Serialize, Deserialize, Clone, Debug)]
pub struct CUnord(pub u32);
#[derive(Event, Serialize, Deserialize, Clone, Debug)]
pub struct CUnrel(pub u32);
#[derive(Event, Serialize, Deserialize, Clone, Debug, MapEntities)]
pub struct CMap(pub u32, #[entities] pub Entity);
#[derive(Event, Serialize, Deserialize, Clone, Debug)]
pub struct CTrig(pub u32);
/// A client trigger without payload (a unit struct, e.g. `Jump`): its message is the target list and nothing else. Only used as
/// attack material in C06 (it carries no sequence number, so the delivery model of C05 cannot follow it).
#[derive(Event, Serialize, Deserialize, Clone, Debug)]
pub struct CUnit;
/// A client event whose payload carries length-prefixed collections (sequence, string, map).
#[derive(Event, Serialize, Deserialize, Clone, Debug, PartialEq)]
pub struct CList(pub u32, pub Vec<u64>, pub String, pub std::collections::BTreeMap<u16, u16>);
impl CList {
    pub fn of(seq: u32) -> Self {
        CList(seq, vec![seq as u64, u64::MAX, 0], format!("e{seq}"), [(1u16, 2u16), (seq as u16, 7)].into_iter().collect())
    }
}

#[derive(Clone, Copy, Debug, PartialEq, Eq, PartialOrd, Ord, Hash, Serialize, Deserialize)]
pub enum SK {
    Dep,
    Ind,
    Unord,
    Unrel,
    Trig,
}
#[derive(Clone, Copy, Debug, PartialEq, Eq, PartialOrd, Ord, Hash, Serialize, Deserialize)]
pub enum CK {
    Ev,
    Unord,
    Unrel,
    Map,
    Trig,
    /// `CList` (registered last: the channel indices of the other kinds are unchanged)
    List,
    /// `CUnit` (registered after `CList`; never generated by the engine profiles)
    Unit,
}

#[derive(Clone, Debug, Serialize, Deserialize, PartialEq)]
pub struct Cfg {
    /// 0 all, 1 blacklist, 2 whitelist
    pub vis: u8,
    pub clients: usize,
    /// per client `ConnectedClient::max_size`
    pub max_size: Vec<usize>,
    /// 0 manual, 1 every frame, 2 max tick rate (30 Hz with 10 ms manual frames)
    pub policy: u8,
    /// 0 none, 1 custom, 2 protocol check
    pub auth: u8,
    /// bit i set: client i is built with a different protocol
    pub mismatch: u8,
    pub period: u32,
    pub periodic: bool,
    pub refs: bool,
    pub children: bool,
    pub sync: bool,
    pub track: bool,
    pub faults: bool,
    pub prespawn: bool,
    pub events: bool,
    pub slots: usize,
    /// `ServerPlugin::mutations_timeout` in ms (frames advance manual time by 10 ms)
    pub timeout_ms: u64,
    /// larger `C` payloads so that mutate messages split
    pub big: bool,
    /// allow `ChildOf` under a visibility list: the caller guarantees that a group is visible as a whole (C10)
    #[serde(default)]
    pub children_any_vis: bool,
    /// Replays of known findings only: perform operations that the generators suppress (never generated).
    #[serde(default)]
    pub no_exclusions: bool,
    /// value added to the server tick when the server starts (manual policy only): ticks around 2^31 and 2^32
    #[serde(default)]
    pub start_tick: u32,
    /// allow `BigJump` steps (jumps of about 2^30 ticks with a full refresh of every live tick)
    #[serde(default)]
    pub big_jumps: bool,
    /// every client is connected before the first generated step (otherwise only client 0)
    #[serde(default)]
    pub connect_all: bool,
    /// register `replicate_bundle::<(X, Y)>()` and generate the component kinds X and Y
    #[serde(default)]
    pub bundle: bool,
    /// register the second relationship `OwnedBy` (replicated; synchronized with `sync`) and generate `SetOwner` / `DelOwner`
    #[serde(default)]
    pub owners: bool,
    /// filler entities spawned in the server world (and a different number in every client world) before anything else:
    /// entity indices on both sides of the points where their wire encoding grows (64, 8192)
    #[serde(default)]
    pub entity_offset: u16,
    /// client command markers: every replicated client entity carries a marker that wants history (and overrides nothing)
    /// and a marker without history that overrides the writing of `A` and `S` with the default functions - by the
    /// documentation a configuration that behaves exactly like no markers at all
    #[serde(default)]
    pub markers: bool,
    /// how `A` and `S` are registered (the reference does not change: rule functions and overlapping rules are transparent)
    /// 0: `replicate::<A>()`, `replicate::<S>()`;
    /// 1: `A` with custom (variable-length) serialization and an in-place deserializer, `S` as `(RuleFns, SendRate::EveryTick)`;
    /// 2: as 1, plus an overlapping two-component rule `(A with other functions, S)` that takes over while an entity has both;
    /// 3: as 2, but the single rule for `A` has the higher priority, so the overlapping rule only contributes `S`
    #[serde(default)]
    pub custom_fns: u8,
    /// the server app is built as a dedicated server (client plugins disabled) and every client app as a pure client
    /// (server plugins disabled); otherwise every app has all plugins, as in the repository's tests
    #[serde(default)]
    pub split_plugins: bool,
    /// generate `Noise` / `ClientNoise` / `Touch`: unreplicated components come and go on replicated entities on both sides
    /// (archetype moves that change nothing replicated), and components are marked changed without a new value
    #[serde(default)]
    pub noise: bool,
    /// mapped emissions (`SK::Dep`, `CK::Map`) travel as mapped TRIGGERS (`add_mapped_server_trigger` /
    /// `add_mapped_client_trigger`: the entity is part of the payload) instead of mapped events
    #[serde(default)]
    pub trig_map: bool,
    /// transparent client-side API variants: the replication statistics resource exists (`ClientReplicationStats`), and
    /// `C` is written through `set_command_fns` with the default functions
    #[serde(default)]
    pub client_variants: bool,
}

impl Default for Cfg {
    fn default() -> Self {
        Cfg {
            vis: 0,
            clients: 2,
            max_size: vec![1200, 1200, 1200],
            policy: 0,
            auth: 0,
            mismatch: 0,
            period: 3,
            periodic: false,
            refs: false,
            children: false,
            sync: false,
            track: false,
            faults: false,
            prespawn: false,
            events: false,
            slots: 5,
            timeout_ms: 10_000,
            big: false,
            children_any_vis: false,
            no_exclusions: false,
            start_tick: 0,
            big_jumps: false,
            connect_all: false,
            bundle: false,
            owners: false,
            entity_offset: 0,
            markers: false,
            custom_fns: 0,
            split_plugins: false,
            noise: false,
            trig_map: false,
            client_variants: false,
        }
    }
}

#[derive(Clone, Debug, Serialize, Deserialize, PartialEq)]
pub enum Step {
    Spawn { slot: usize, marked: bool, comps: Vec<K> },
    Despawn { slot: usize },
    Marker { slot: usize, on: bool },
    /// insert the replication marker again on an entity that already carries it (e.g. as part of a larger bundle)
    Remark { slot: usize },
    Insert { slot: usize, k: K },
    Remove { slot: usize, k: K },
    Mutate { slot: usize, k: K },
    /// mutate component `k` of every entity that carries it (one tick then carries many entities' mutations)
    MutateAll { k: K },
    /// mutate the payload component `C` in place to a given padding length
    Resize { slot: usize, len: u16 },
    SetRef { slot: usize, target: usize },
    DelRef { slot: usize },
    SetParent { slot: usize, parent: usize },
    DelParent { slot: usize },
    /// insert / replace the second relationship `OwnedBy(owner)` on `slot` (any owner but itself; cycles allowed)
    SetOwner { slot: usize, owner: usize },
    DelOwner { slot: usize },
    Vis { client: usize, slot: usize, visible: bool },
    /// several `set_visibility` calls in a row (repeated and mutually cancelling calls inside one tick window)
    VisBurst { client: usize, slot: usize, pattern: Vec<bool> },
    /// `early`: the mapping is registered a tick (or more) before the entity becomes visible to the client: the server entity
    /// starts without the replication marker (whitelist: marked but not yet shown); a later step makes it visible
    PreSpawn {
        client: usize,
        slot: usize,
        kill: bool,
        gap: bool,
        #[serde(default)]
        early: bool,
        /// in the same tick window point this slot's reference component at the new entity ("whatever else travels in the same tick")
        #[serde(default)]
        refer: Option<usize>,
    },
    /// `refslot2`: triggers only - a second target entity (the observer then runs once per target)
    EmitS { kind: SK, mode: u8, target: usize, refslot: usize, #[serde(default)] refslot2: Option<usize> },
    /// `refslot2`: triggers only - a second target entity
    EmitC { client: usize, kind: CK, refslot: usize, #[serde(default)] refslot2: Option<usize> },
    ServerFrame { tick: bool },
    /// `n` server frames without a tick (time passes: acknowledgement timeouts can fire while acks are still in flight)
    IdleFrames { n: u8 },
    /// one server frame without a tick that takes `secs` seconds of real time (a hitch): Bevy's virtual clock advances by at
    /// most 250 ms in it, so from then on the real and the virtual clock are apart
    LongFrame { secs: u8 },
    /// a tick frame that advances the server tick by `by` (manual policy; gaps around the 64-tick window)
    TickJump { by: u8 },
    /// everybody in sync, advance the server tick by about 2^30, touch every replicated entity so that every live tick is
    /// refreshed (ticks 2^31 or more apart are never compared), everybody in sync again
    BigJump { fine: u8 },
    /// (once per case, start tick >= 2^16) hop in BigJump fashion - everybody in sync, at most 2^30 ticks, every live tick
    /// refreshed - until the server tick is `before` (3..15) ticks below u32::MAX: the steps that follow cross the wrap of
    /// the tick counter with ordinary traffic in flight
    ToWrap { before: u8 },
    ClientFrame { client: usize },
    DeliverUpd { client: usize, n: usize },
    DeliverMut { client: usize, idx: u16 },
    DropMut { client: usize, idx: u16 },
    /// of the queued mutate messages deliver those whose bit is set in `mask` (in order), lose the others,
    /// run a client frame and optionally hand over all acknowledgements: one legal schedule, made frequent
    PartialMut { client: usize, mask: u8, ack: bool },
    /// adversarial but legal schedule: hand over every queued mutate message first (newest first when `rev`), run a client
    /// frame, then every queued update message, and run another client frame (optionally the acknowledgements after that)
    MutFirst { client: usize, rev: bool, ack: bool },
    /// One legal history made frequent (visibility lists, >= 2 authorized clients): a structural change on an entity that only
    /// some clients see, tick (an update message for those clients only: the clients' update ticks now differ), a mutation of
    /// `A` on every entity, tick (mutate messages for everybody), then for every viewer the mutate messages before the
    /// update message (`MutFirst`).
    DivergeEpisode { slot: usize, k: K, rev: bool },
    /// One legal history made frequent (configurations with references): inside one tick window a new entity is spawned in
    /// the empty slot `target`, the EXISTING reference component of `holder` is pointed at it (a mutation that names an entity
    /// the clients do not know yet) and a component is removed from `holder` (so its mutation travels in the update message,
    /// possibly in front of the new entity's own record); then the tick.
    ForwardRef { holder: usize, target: usize },
    DeliverAck { client: usize, n: usize },
    /// server -> client event channel (index among event channels)
    DeliverSEv { client: usize, chan: u16, idx: u16 },
    DropSEv { client: usize, chan: u16, idx: u16 },
    /// adversarial but legal schedule: hand over every queued event message first, run a client frame, then every
    /// queued update message, and run another client frame
    EventsFirst { client: usize },
    /// hand over every queued event message and run a client frame; update messages stay in flight
    EventsOnly { client: usize },
    /// client -> server event channel
    DeliverCEv { client: usize, chan: u16, idx: u16 },
    DropCEv { client: usize, chan: u16, idx: u16 },
    Disconnect { client: usize },
    /// the backend reads everything the client still had in flight and notices the closed connection in the same pass:
    /// the messages are handed to `RepliconServer`, then the client entity is despawned, before the next server frame
    DisconnectLate { client: usize },
    Connect { client: usize },
    Authorize { client: usize },
    /// One legal history made frequent: create traffic on `slot` (structural change, mutation, event), hand over only the
    /// parts selected by `what` (bit 0: events + frame, so an event is queued on the client; bit 1: mutate messages + frame,
    /// so a mutate message is buffered; bit 2: updates + frame with the acknowledgements left in flight), then end the
    /// session (disconnect, or stop and start the server) and connect again.
    FaultEpisode { client: usize, slot: usize, what: u8, restart: bool },
    ServerRestart,
    /// stop the server (clients are disconnected first); world operations may follow while it is stopped
    ServerStop,
    /// the backend stops the server while clients are still connected: the library itself despawns the client entities; the
    /// clients notice the closed connection afterwards
    ServerStopAbrupt,
    ServerStart,
    JunkAck { client: usize, bytes: Vec<u8> },
    /// the server's game inserts (`on`) or removes an unreplicated component (`sparse`: sparse-set storage) on the entity:
    /// an archetype move that changes nothing replicated (`Cfg::noise`)
    Noise { slot: usize, on: bool, sparse: bool },
    /// the client's game inserts or removes a local, unreplicated component on its copy of the entity (`Cfg::noise`)
    ClientNoise { client: usize, slot: usize, on: bool },
    /// One legal history made frequent (short acknowledgement timeouts): every entity's `A` changes, tick, the client's mutate
    /// messages are lost; frames pass until the timeout has forgotten them (with ticks in between, the data is re-sent and lost
    /// again); then every payload `C` changes (a tick split into several messages), only the messages selected by `mask` arrive
    /// and are acknowledged; then `k` changes on `slot`, tick, everything is delivered.
    TimeoutEpisode { client: usize, slot: usize, k: K, mask: u8 },
    /// mark component `k` changed without giving it a new value (`set_changed`; `Cfg::noise`)
    Touch { slot: usize, k: K },
}

/// Which oracles are armed (chosen by the property being checked, not part of a case).
#[derive(Clone, Copy, Debug, Default)]
pub struct Oracles {
    /// C01: convergence at quiescence
    pub converge: bool,
    /// C02: values at the confirmed tick, after every client frame
    pub values: bool,
    /// C03: structure at the update tick, after every client frame
    pub structure: bool,
    /// C08: hidden secrets on the wire
    pub wire: bool,
    /// C08: visibility query
    pub isvis: bool,
    /// C11: idle silence after quiescence
    pub silence: bool,
    /// C04: dependent events wait for their tick, references resolve
    pub ev_tick: bool,
    /// C05: exactly once / order / recipients
    pub ev_once: bool,
    /// C07: nothing but independent events for unauthorized clients
    pub unauth: bool,
    /// C16: adoption of pre-spawned entities
    pub adoption: bool,
    /// C09: nothing of an old session is applied / delivered / kept
    pub session: bool,
    /// C12 end to end: MutateTickReceived / ServerMutateTicks vs delivered messages
    pub mutate_ticks: bool,
}

impl Oracles {
    pub fn all() -> Self {
        Oracles {
            converge: true,
            values: true,
            structure: true,
            wire: true,
            isvis: true,
            silence: true,
            ev_tick: true,
            ev_once: true,
            unauth: true,
            adoption: true,
            session: true,
            mutate_ticks: true,
        }
    }
}

#[derive(Clone, Debug, Serialize, Deserialize, PartialEq)]
pub struct Case {
    pub cfg: Cfg,
    pub steps: Vec<Step>,
}
