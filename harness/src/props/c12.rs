//! C12: tick-confirmation queries agree with a plain set of confirmed ticks (pure, model-based) and, end to end,
//! a tick is reported exactly once and only when all its mutate messages were applied.
use std::collections::{BTreeMap, BTreeSet};

use bevy_replicon::client::confirm_history::ConfirmHistory;
use bevy_replicon::client::server_mutate_ticks::ServerMutateTicks;
use bevy_replicon::shared::replicon_tick::RepliconTick as T;
use proptest::prelude::*;
use serde::{Deserialize, Serialize};
use serde_json::Value;

use crate::common::*;
use crate::props::engine::EngineProp;
use crate::sim::generate::Profile;
use crate::sim::{Oracles, Sim};

#[derive(Clone, Debug, Serialize, Deserialize)]
pub enum Op {
    Confirm(i64),
    Query(i64),
    Range(i64, u32),
}

#[derive(Clone, Debug, Serialize, Deserialize)]
pub struct Case {
    pub start: u32,
    pub ops: Vec<Op>,
    pub counts: Vec<usize>,
}

fn delta() -> impl Strategy<Value = i64> {
    prop_oneof![
        6 => -70i64..=70,
        2 => prop_oneof![Just(63i64), Just(64), Just(65), Just(-63), Just(-64), Just(-65), Just(127), Just(128), Just(129)],
        1 => 100i64..5000,
        1 => prop_oneof![Just(1i64 << 30), Just((1i64 << 31) - 1), Just((1i64 << 31) - 64), Just(1i64 << 29)],
    ]
}
fn op() -> impl Strategy<Value = Op> {
    prop_oneof![
        4 => delta().prop_map(Op::Confirm),
        3 => (-140i64..=5).prop_map(Op::Query),
        3 => ((-140i64..=5), 0u32..=130).prop_map(|(a, l)| Op::Range(a, l)),
    ]
}
fn w(base: u32, off: i64) -> T {
    T::new(base.wrapping_add(off as u32))
}

fn big_jump(ops: &[Op]) -> bool {
    ops.iter().any(|o| matches!(o, Op::Confirm(d) if d.abs() >= 64))
}

pub fn run_history(c: &Case) -> Outcome {
    let start = c.start;
    let mut last: i64 = 0;
    let mut set: BTreeSet<i64> = [0].into();
    let mut h = ConfirmHistory::new(T::new(start));
    let contains = |last: i64, set: &BTreeSet<i64>, t: i64| t <= last && (last - t >= 64 || set.contains(&t));
    let mut wrapped = false;
    for (i, o) in c.ops.iter().enumerate() {
        match *o {
            Op::Confirm(d) => {
                let t = last + d;
                h.confirm(w(start, t));
                if t > last {
                    last = t;
                }
                if last - t < 64 {
                    set.insert(t);
                }
                set.retain(|&x| last - x < 64);
                if (start as i64 + last) >= (1i64 << 32) {
                    wrapped = true;
                }
            }
            Op::Query(d) => {
                let t = last + d;
                let got = h.contains(w(start, t));
                let exp = contains(last, &set, t);
                if got != exp {
                    return Outcome::failed(Fail::new("C12.history_contains", format!("op {i}: contains({t}) last={last} set={set:?}: got {got} expected {exp}")));
                }
            }
            Op::Range(d, len) => {
                let a = last + d;
                let b = a + len as i64;
                let got = h.contains_any(w(start, a), w(start, b));
                let exp = (a..=b).any(|t| contains(last, &set, t));
                if got != exp {
                    return Outcome::failed(Fail::new(
                        "C12.history_contains_any",
                        format!("op {i}: contains_any({a},{b}) last={last} set={set:?}: got {got} expected {exp}"),
                    ));
                }
            }
        }
        if h.last_tick() != w(start, last) {
            return Outcome::failed(Fail::new("C12.history_last_tick", format!("op {i}: last_tick {:?} expected {:?}", h.last_tick(), w(start, last))));
        }
    }
    let mut out = Outcome::ok();
    out.nontrivial = big_jump(&c.ops) || wrapped;
    if wrapped {
        out.classes.push("crossed_wrap");
    }
    if big_jump(&c.ops) {
        out.classes.push("gap_ge_64");
    }
    out
}

pub fn run_ticks(c: &Case) -> Outcome {
    let mut last: i64 = 0;
    let mut m = ServerMutateTicks::default();
    let mut model: BTreeMap<i64, (usize, usize)> = BTreeMap::new();
    let all = |model: &BTreeMap<i64, (usize, usize)>, t: i64| model.get(&t).map(|&(c, r)| c != 0 && c == r).unwrap_or(false);
    let contains = |last: i64, model: &BTreeMap<i64, (usize, usize)>, t: i64| t <= last && (last - t >= 64 || all(model, t));
    let mut wrapped = false;
    for (i, o) in c.ops.iter().enumerate() {
        match *o {
            Op::Confirm(d) => {
                let t = last + d;
                let count = c.counts[(t.rem_euclid(c.counts.len() as i64)) as usize];
                let in_window = t > last || last - t < 64;
                if in_window {
                    // precondition: one message count per tick, at most that many confirmations
                    if let Some(e) = model.get(&t) {
                        if e.1 >= e.0 {
                            continue;
                        }
                    }
                }
                let got = m.confirm(w(0, t), count);
                if t > last {
                    last = t;
                }
                model.retain(|&x, _| last - x < 64);
                let exp = if last - t < 64 {
                    let e = model.entry(t).or_insert((count, 0));
                    e.1 += 1;
                    e.0 == e.1
                } else {
                    false
                };
                if last >= (1i64 << 32) {
                    wrapped = true;
                }
                if got != exp {
                    return Outcome::failed(Fail::new("C12.ticks_confirm", format!("op {i}: confirm({t}, {count}) last={last}: got {got} expected {exp}")));
                }
            }
            Op::Query(d) => {
                let t = last + d;
                let got = m.contains(w(0, t));
                let exp = contains(last, &model, t);
                if got != exp {
                    return Outcome::failed(Fail::new("C12.ticks_contains", format!("op {i}: contains({t}) last={last} model={model:?}: got {got} expected {exp}")));
                }
            }
            Op::Range(d, len) => {
                let a = last + d;
                let b = a + len as i64;
                let got = m.contains_any(w(0, a), w(0, b));
                let exp = (a..=b).any(|t| contains(last, &model, t));
                if got != exp {
                    return Outcome::failed(Fail::new(
                        "C12.ticks_contains_any",
                        format!("op {i}: contains_any({a},{b}) last={last} model={model:?}: got {got} expected {exp}"),
                    ));
                }
            }
        }
        if m.last_tick() != w(0, last) {
            return Outcome::failed(Fail::new("C12.ticks_last_tick", format!("op {i}: last_tick {:?} expected {:?}", m.last_tick(), w(0, last))));
        }
    }
    let mut out = Outcome::ok();
    out.nontrivial = big_jump(&c.ops) || wrapped;
    if wrapped {
        out.classes.push("crossed_wrap");
    }
    if big_jump(&c.ops) {
        out.classes.push("gap_ge_64");
    }
    out
}

/// Tick comparison: any two ticks less than half the range apart are ordered by their wrapping distance.
pub fn run_cmp(pair: &(u32, i64)) -> Outcome {
    let (a, d) = *pair;
    let ta = T::new(a);
    let tb = w(a, d);
    let exp = d.cmp(&0);
    let got = tb.cmp(&ta);
    if got != exp || tb.partial_cmp(&ta) != Some(exp) || (tb == ta) != (d == 0) {
        return Outcome::failed(Fail::new("C12.tick_cmp", format!("cmp({}+{d}, {a}) = {got:?}, expected {exp:?}", a)));
    }
    // arithmetic agrees with the wrapping distance
    if d >= 0 && (tb - ta) as i64 != d {
        return Outcome::failed(Fail::new("C12.tick_sub", format!("({a}+{d}) - {a} = {}", tb - ta)));
    }
    let mut out = Outcome::ok();
    out.nontrivial = (a as i64 + d) >= (1i64 << 32) || (a as i64 + d) < 0 || d.abs() > (1 << 30);
    out
}

pub struct C12 {
    e2e: EngineProp,
}

pub fn c12() -> C12 {
    C12 {
        e2e: EngineProp {
            id: "C12",
            oracles: Oracles { mutate_ticks: true, ..Default::default() },
            profiles: vec![(Profile::Tracked, 30000, 600_000), (Profile::Wrap, 15000, 400_000), (Profile::Sessions, 30000, 600_000)],
            nontrivial: |s: &Sim| s.flags.contains("mut_dropped") || s.flags.contains("mut_reordered"),
            rule: "",
            assumptions: vec![],
        },
    }
}

fn starts() -> impl Strategy<Value = u32> {
    prop_oneof![Just(0u32), Just(1), Just(100), Just(u32::MAX), Just(u32::MAX - 30), Just(1u32 << 31), Just((1u32 << 31) - 40), any::<u32>()]
}

fn case_strategy() -> impl Strategy<Value = Case> {
    (starts(), proptest::collection::vec(op(), 1..60), proptest::collection::vec(prop_oneof![6 => 1usize..4, 1 => prop_oneof![Just(255usize), Just(256), Just(65_535), Just(65_536), Just(65_537), Just(70_000), Just((u32::MAX as usize) + 2)]], 7)).prop_map(|(start, ops, counts)| Case { start, ops, counts })
}

fn cmp_strategy() -> impl Strategy<Value = (u32, i64)> {
    let d = prop_oneof![
        3 => -70i64..=70,
        2 => prop_oneof![Just((1i64 << 31) - 1), Just(-((1i64 << 31) - 1)), Just(1i64 << 30), Just(-(1i64 << 30))],
        3 => -((1i64 << 31) - 1)..=((1i64 << 31) - 1),
    ];
    (starts(), d)
}

impl Prop for C12 {
    fn id(&self) -> &'static str {
        "C12"
    }
    fn units(&self, tier: Tier) -> Vec<Unit> {
        let q = tier == Tier::Quick;
        let mut v = vec![
            Unit::new("history", if q { 60_000 } else { 2_000_000 }),
            Unit::new("mutate_ticks", if q { 60_000 } else { 2_000_000 }),
            Unit::new("tick_cmp", if q { 40_000 } else { 1_000_000 }),
        ];
        v.extend(self.e2e.units(tier));
        v
    }
    fn run_unit(&self, unit: &Unit, cases: u32, seed: u64, stats: &mut Stats) -> Option<Failure> {
        match unit.name.as_str() {
            "history" => run_proptest("history", case_strategy(), cases, seed, 5000, stats, |c| guarded("C12", || run_history(c))),
            "mutate_ticks" => run_proptest("mutate_ticks", case_strategy(), cases, seed, 5000, stats, |c| guarded("C12", || run_ticks(c))),
            "tick_cmp" => run_proptest("tick_cmp", cmp_strategy(), cases, seed, 2000, stats, |c| guarded("C12", || run_cmp(c))),
            _ => self.e2e.run_unit(unit, cases, seed, stats),
        }
    }
    fn replay(&self, unit: &str, case: &Value) -> Outcome {
        let bad = |e: serde_json::Error| Outcome::failed(Fail::new("infra.replay", e.to_string()));
        match unit {
            "history" => serde_json::from_value::<Case>(case.clone()).map(|c| run_history(&c)).unwrap_or_else(bad),
            "mutate_ticks" => serde_json::from_value::<Case>(case.clone()).map(|c| run_ticks(&c)).unwrap_or_else(bad),
            "tick_cmp" => serde_json::from_value::<(u32, i64)>(case.clone()).map(|c| run_cmp(&c)).unwrap_or_else(bad),
            _ => self.e2e.replay(unit, case),
        }
    }
    fn rule(&self) -> String {
        "pure units: generated sequences of confirm / contains / contains_any on ConfirmHistory and ServerMutateTicks with tick deltas around the 64-tick window, \
         jumps up to 2^31-1 and start ticks around 0, 2^31 and 2^32-1, compared op by op with a reference model (last tick + plain set of confirmed ticks; older than the \
         window counts as confirmed); tick_cmp: pairs less than 2^31 apart compared with the sign of the wrapping distance. non-trivial = the sequence contains a gap >= 64 \
         or crosses the 32-bit wrap. end-to-end unit (tracked): engine histories with mutate-message tracking, small max_size and loss; harness counts per tick the mutate \
         messages that left the server and that it delivered; MutateTickReceived must fire at most once, never before all messages of the tick were handed over, and at \
         quiescence exactly for the complete ticks, with ServerMutateTicks::contains agreeing. non-trivial = a mutate message was dropped or reordered"
            .into()
    }
    fn assumptions(&self) -> Vec<String> {
        vec![
            "public preconditions respected: start <= end for range queries, one message count per tick, at most that many confirmations per tick".into(),
            "ticks compared are less than 2^31 apart".into(),
        ]
    }
    fn shard_cases(&self) -> u32 {
        2500
    }
}
