//! C06: no client input can crash or exhaust the server.
use bytes::Bytes;
use proptest::prelude::*;
use serde::{Deserialize, Serialize};
use serde_json::{Value, json};

use bevy_replicon::prelude::*;

use crate::common::*;
use crate::sim::oracle::check_converged;
use crate::sim::*;

const ATTACKER: usize = 0;
const HONEST: usize = 1;

fn cfg() -> Cfg {
    // a short acknowledgement timeout keeps the per-client table of unacknowledged mutate messages small while the
    // harness floods the server with thousands of frames (the table is bounded by 2 x timeout by design)
    Cfg { auth: 2, clients: 2, events: true, slots: 6, refs: true, timeout_ms: 200, ..Cfg::default() }
}

fn round(sim: &mut Sim, who: &[usize]) {
    sim.force_tick_frame();
    for &i in who {
        if !sim.clients[i].connected {
            continue;
        }
        for ch in 0..sim.skinds.len() {
            while sim.deliver_s2c(i, ch, 0) {}
        }
        sim.client_frame(i);
        for ch in 0..sim.ckinds.len() {
            while sim.deliver_c2s(i, ch, 0) {}
        }
    }
}

/// A small running session: honest client authorized and in sync, attacker connected (authorized or not),
/// a few entities, mutate messages in flight. Returns the attacker's captured genuine messages per client channel.
pub fn session(authorized: bool, scenario: u8) -> (Sim, Vec<Vec<Bytes>>) {
    let mut sim = Sim::new(&cfg(), Oracles::default());
    sim.drain_logs = true;
    sim.connect(ATTACKER);
    sim.connect(HONEST);
    // the attacker's genuine protocol hash is part of the material the mutations start from
    let mut genuine_hash: Vec<Vec<Bytes>> = sim.clients[ATTACKER].c2s.iter().map(|q| q.iter().map(|m| m.bytes.clone()).collect()).collect();
    if !authorized {
        // the genuine hash of the attacker's client does not reach the server on its own
        for q in &mut sim.clients[ATTACKER].c2s {
            q.clear();
        }
    }
    let who: Vec<usize> = if authorized { vec![ATTACKER, HONEST] } else { vec![HONEST] };
    round(&mut sim, &who);
    round(&mut sim, &who);
    for slot in 0..(2 + (scenario % 3) as usize) {
        sim.step(&Step::Spawn { slot, marked: true, comps: vec![K::A, K::C] });
    }
    sim.step(&Step::SetRef { slot: 0, target: 1 });
    round(&mut sim, &who);
    round(&mut sim, &who);
    // capture genuine traffic of the attacker's own client
    let mut captured: Vec<Vec<Bytes>> = vec![Vec::new(); sim.ckinds.len()];
    for (ch, v) in genuine_hash.iter_mut().enumerate() {
        captured[ch].append(v);
    }
    sim.step(&Step::Mutate { slot: 0, k: K::A });
    sim.step(&Step::Mutate { slot: 1, k: K::C });
    sim.force_tick_frame();
    if authorized {
        for ch in 0..sim.skinds.len() {
            while sim.deliver_s2c(ATTACKER, ch, 0) {}
        }
    }
    for kind in [CK::Ev, CK::Unord, CK::Unrel, CK::Map, CK::Trig, CK::List, CK::Unit, CK::Unit] {
        sim.step(&Step::EmitC { client: ATTACKER, kind, refslot: 0, refslot2: if sim.seq % 2 == 0 { Some(1) } else { None } });
    }
    sim.client_frame(ATTACKER);
    for ch in 0..sim.ckinds.len() {
        for m in sim.clients[ATTACKER].c2s[ch].drain(..) {
            captured[ch].push(m.bytes);
        }
    }
    // leave a mutate message for the honest client unacknowledged: live mutate indices exist on the server
    if scenario % 2 == 0 {
        sim.step(&Step::Mutate { slot: 0, k: K::A });
        sim.force_tick_frame();
    }
    (sim, captured)
}

/// Injects `msgs` as coming from the attacker and runs one server frame. Checks panic (by the caller's guard) and allocation.
pub fn inject(sim: &mut Sim, msgs: &[(usize, Vec<u8>)]) -> Option<Fail> {
    inject_with_honest(sim, msgs, false)
}

/// Same, optionally with genuine events of the well-behaved client queued BEHIND the attacker's messages on every
/// event channel in the same server frame: a malformed message must not swallow what follows it.
pub fn inject_with_honest(sim: &mut Sim, msgs: &[(usize, Vec<u8>)], with_honest: bool) -> Option<Fail> {
    inject_full(sim, msgs, with_honest, false)
}

/// `attacker_silent`: every one of `msgs` is a STRICT PREFIX of a genuine message of the attacker's own client. A message
/// format that is read front to back makes the same decisions on the prefix as on the whole message until the bytes run
/// out, so a strict prefix is never a valid message: it has to be discarded, i.e. server logic sees no event of the attacker.
pub fn inject_full(sim: &mut Sim, msgs: &[(usize, Vec<u8>)], with_honest: bool, attacker_silent: bool) -> Option<Fail> {
    let id = sim.clients[ATTACKER].id;
    let honest = sim.clients[HONEST].id;
    let mut expected: Vec<(CK, u32)> = Vec::new();
    if with_honest {
        for kind in [CK::Ev, CK::Unord, CK::Unrel, CK::Map, CK::Trig, CK::List] {
            sim.step(&Step::EmitC { client: HONEST, kind, refslot: 0, refslot2: None });
            expected.push((kind, sim.seq));
        }
        sim.client_frame(HONEST);
    }
    let mut total = 0usize;
    for (ch, bytes) in msgs {
        total += bytes.len();
        sim.server.world_mut().resource_mut::<RepliconServer>().insert_received(id, *ch, bytes.clone());
    }
    if with_honest {
        for ch in 0..sim.ckinds.len() {
            while sim.deliver_c2s(HONEST, ch, 0) {}
        }
    }
    let before = sim.from_log.len();
    sim.server_frame(true);
    let max = sim.last_update_max_alloc;
    let limit = 64 * 1024 + 64 * total;
    if max > limit {
        return Some(Fail::new("C06.allocation", format!("an allocation of {max} bytes was requested while processing {total} received bytes (limit {limit})")));
    }
    if with_honest {
        let seen: Vec<(CK, u32)> = sim.from_log[before..].iter().filter(|e| e.2 == honest).map(|e| (e.0, e.1)).collect();
        for e in &expected {
            if !seen.contains(e) {
                return Some(Fail::new(
                    "C06.swallowed",
                    format!("event {e:?} of the well-behaved client, queued in the same frame behind the attacker's message, never reached server logic (seen {seen:?})"),
                ));
            }
        }
    }
    if attacker_silent {
        if let Some(e) = sim.from_log[before..].iter().find(|e| e.2 == id) {
            let e = *e;
            sim.from_log.clear();
            return Some(Fail::new(
                "C06.malformed_accepted",
                format!("a truncated genuine message ({:?}) was not discarded: server logic saw a {:?} event (seq {}) of the attacker", msgs.iter().map(|m| (m.0, m.1.clone())).collect::<Vec<_>>(), e.0, e.1),
            ));
        }
    }
    sim.from_log.clear();
    sim.fail.take()
}

/// After the attack: the server still serves the honest client correctly.
pub fn serve_check(sim: &mut Sim, round_no: u32) -> Option<Fail> {
    let slot = 4 + (round_no % 2) as usize;
    sim.step(&Step::Despawn { slot });
    sim.step(&Step::Spawn { slot, marked: true, comps: vec![K::A, K::B] });
    sim.step(&Step::Mutate { slot: 0, k: K::A });
    sim.step(&Step::Mutate { slot: 1, k: K::C });
    sim.step(&Step::EmitC { client: HONEST, kind: CK::Ev, refslot: 0, refslot2: None });
    let seq = sim.seq;
    let honest = sim.clients[HONEST].id;
    for _ in 0..4 {
        round(sim, &[HONEST]);
    }
    if let Some(f) = sim.fail.take() {
        return Some(f);
    }
    if sim.last_from.get(&honest) != Some(&seq) {
        return Some(Fail::new("C06.not_serving", "an event of the well-behaved client was not delivered after the attack".to_string()));
    }
    sim.or.converge = true;
    sim.converge_only = Some(vec![HONEST]);
    match check_converged(sim) {
        Ok(()) => None,
        Err(f) => Some(Fail::new("C06.not_serving", format!("well-behaved client no longer converges after the attack: {}", f.msg))),
    }
}

#[derive(Clone, Debug, Serialize, Deserialize)]
pub enum Mut {
    Truncate(u16),
    Extend(Vec<u8>),
    Flip(u16, u8),
    Splice(u16, Vec<u8>),
    /// overwrite from a position with the varint encoding of a boundary value
    Varint(u16, u8),
    Set(u16, u8),
}

const BOUNDS: [u64; 14] = [0, 1, 127, 128, 16383, 16384, (1 << 31) - 1, 1 << 31, (1 << 32) - 1, 1 << 32, (1 << 63) - 1, 1 << 63, u64::MAX - 1, u64::MAX];

fn varint(mut v: u64) -> Vec<u8> {
    let mut out = Vec::new();
    loop {
        let b = (v & 0x7f) as u8;
        v >>= 7;
        if v == 0 {
            out.push(b);
            break;
        }
        out.push(b | 0x80);
    }
    out
}

pub fn mutate(base: &[u8], muts: &[Mut]) -> Vec<u8> {
    let mut v = base.to_vec();
    for m in muts {
        match m {
            Mut::Truncate(p) => {
                let n = pick(*p, v.len() + 1);
                v.truncate(n);
            }
            Mut::Extend(b) => v.extend_from_slice(b),
            Mut::Flip(p, bit) => {
                if !v.is_empty() {
                    let i = pick(*p, v.len());
                    v[i] ^= 1 << (bit % 8);
                }
            }
            Mut::Splice(p, b) => {
                let i = pick(*p, v.len() + 1);
                let tail = v.split_off(i);
                v.extend_from_slice(b);
                v.extend(tail);
            }
            Mut::Varint(p, k) => {
                let i = pick(*p, v.len() + 1);
                let enc = varint(BOUNDS[*k as usize % BOUNDS.len()]);
                v.truncate(i);
                v.extend(enc);
            }
            Mut::Set(p, b) => {
                if !v.is_empty() {
                    let i = pick(*p, v.len());
                    v[i] = *b;
                }
            }
        }
        if v.len() > 4096 {
            v.truncate(4096);
        }
    }
    v
}

#[derive(Clone, Debug, Serialize, Deserialize)]
pub struct MsgSpec {
    pub chan: u16,
    pub base: u16,
    pub from_scratch: bool,
    pub muts: Vec<Mut>,
}

#[derive(Clone, Debug, Serialize, Deserialize)]
pub struct Case {
    pub authorized: bool,
    pub scenario: u8,
    pub frames: Vec<Vec<MsgSpec>>,
    /// the attacker's connection is closed in the same backend pass that read its last messages
    #[serde(default)]
    pub close_after_last: bool,
    /// (channel, captured message, cut): after the generated frames one strict prefix of a genuine message is sent alone
    #[serde(default)]
    pub probe: Option<(u16, u16, u16)>,
}

pub fn run_mutated(c: &Case) -> Outcome {
    let (mut sim, captured) = session(c.authorized, c.scenario);
    let nch = sim.ckinds.len();
    let mut nontrivial = false;
    for (fi, frame) in c.frames.iter().enumerate() {
        let mut msgs = Vec::new();
        for m in frame {
            let ch = pick(m.chan, nch);
            let base: Vec<u8> = if m.from_scratch || captured[ch].is_empty() { Vec::new() } else { captured[ch][pick(m.base, captured[ch].len())].to_vec() };
            let bytes = mutate(&base, &m.muts);
            if !bytes.is_empty() && bytes != base {
                nontrivial = true;
            }
            msgs.push((ch, bytes));
        }
        let last = fi + 1 == c.frames.len();
        if last && c.close_after_last {
            // messages first, then the despawn of the client entity, both before the next server frame
            let id = sim.clients[ATTACKER].id;
            for (ch, bytes) in &msgs {
                sim.server.world_mut().resource_mut::<RepliconServer>().insert_received(id, *ch, bytes.clone());
            }
            sim.cfg.faults = true;
            sim.step(&Step::DisconnectLate { client: ATTACKER });
            sim.server_frame(true);
            if let Some(f) = sim.fail.take() {
                return Outcome::failed(f);
            }
            if let Some(f) = serve_check(&mut sim, fi as u32) {
                return Outcome::failed(f);
            }
            break;
        }
        if let Some(f) = inject_with_honest(&mut sim, &msgs, true) {
            return Outcome::failed(f);
        }
        if let Some(f) = serve_check(&mut sim, fi as u32) {
            return Outcome::failed(f);
        }
    }
    let mut probed = false;
    if let (Some((chan, base, cut)), false) = (c.probe, c.close_after_last) {
        // event channels only (a prefix of an acknowledgement message can be a shorter list of acknowledgements)
        let ch = 1 + pick(chan, nch - 1);
        if !captured[ch].is_empty() {
            let base = captured[ch][pick(base, captured[ch].len())].to_vec();
            if !base.is_empty() {
                let bytes = base[..pick(cut, base.len())].to_vec();
                probed = true;
                if let Some(f) = inject_full(&mut sim, &[(ch, bytes)], true, true) {
                    return Outcome::failed(f);
                }
            }
        }
    }
    let mut out = Outcome::ok();
    out.nontrivial = nontrivial;
    out.classes.push(if c.authorized { "authorized_sender" } else { "unauthorized_sender" });
    if probed {
        out.classes.push("strict_prefix_of_a_genuine_message");
    }
    out
}

fn mut_strategy() -> impl Strategy<Value = Mut> {
    prop_oneof![
        2 => any::<u16>().prop_map(Mut::Truncate),
        2 => proptest::collection::vec(any::<u8>(), 1..12).prop_map(Mut::Extend),
        2 => (any::<u16>(), 0u8..8).prop_map(|(p, b)| Mut::Flip(p, b)),
        2 => (any::<u16>(), proptest::collection::vec(any::<u8>(), 1..6)).prop_map(|(p, b)| Mut::Splice(p, b)),
        4 => (any::<u16>(), 0u8..14).prop_map(|(p, k)| Mut::Varint(p, k)),
        2 => (any::<u16>(), prop_oneof![Just(0u8), Just(0x7f), Just(0x80), Just(0xff), any::<u8>()]).prop_map(|(p, b)| Mut::Set(p, b)),
    ]
}

fn case_strategy() -> impl Strategy<Value = Case> {
    let msg = (any::<u16>(), any::<u16>(), proptest::bool::weighted(0.25), proptest::collection::vec(mut_strategy(), 0..5))
        .prop_map(|(chan, base, from_scratch, muts)| MsgSpec { chan, base, from_scratch, muts });
    (any::<bool>(), 0u8..6, proptest::collection::vec(proptest::collection::vec(msg, 1..4), 1..3), proptest::bool::weighted(0.25), proptest::option::weighted(0.6, (any::<u16>(), any::<u16>(), any::<u16>())))
        .prop_map(|(authorized, scenario, frames, close_after_last, probe)| Case { authorized, scenario, frames, close_after_last, probe })
}

/// Exhaustive layer: every byte string of length 0..=len on one channel, sharing a session.
fn run_exhaustive(unit: &str, authorized: bool, ch: usize, len: usize, first: std::ops::Range<u32>, stats: &mut Stats) -> Option<Failure> {
    let (mut sim, _) = session(authorized, 0);
    let mut count = 0u32;
    let mut data: Vec<Vec<u8>> = Vec::new();
    if first.start == 0 {
        data.push(vec![]);
    }
    for a in first.clone() {
        let a = a as u8;
        data.push(vec![a]);
        if len >= 2 {
            for b in 0..=255u8 {
                data.push(vec![a, b]);
                if len >= 3 {
                    for c in 0..=255u8 {
                        data.push(vec![a, b, c]);
                    }
                }
            }
        }
    }
    let total = data.len();
    for (i, d) in data.into_iter().enumerate() {
        let case = || json!({"authorized": authorized, "chan": ch, "bytes": d});
        trace_case(unit, case);
        let mut out = guarded("C06", || {
            let mut o = Outcome::ok();
            // every 16th string shares its frame with genuine events of the honest client queued behind it
            o.fail = inject_with_honest(&mut sim, &[(ch, d.clone())], i % 16 == 0);
            o
        });
        count += 1;
        if count % 64 == 0 && out.fail.is_none() {
            // keep the honest client's traffic flowing
            round(&mut sim, &[HONEST]);
        }
        if out.fail.is_none() && (count % 8192 == 0 || i + 1 == total) {
            let f = guarded("C06", || {
                let mut o = Outcome::ok();
                o.fail = serve_check(&mut sim, count);
                o
            });
            out.fail = f.fail;
        }
        out.nontrivial = !d.is_empty();
        stats.record_enumerated(case, &out);
        if let Some(f) = out.fail {
            return Some(Failure { unit: unit.to_string(), case: case(), fail: f });
        }
    }
    stats.exhaustive = true;
    None
}

pub struct C06;

/// acknowledgements, the protocol-hash trigger and the seven client events / triggers of the pool (the payload-less trigger last)
pub const NCH: usize = 9;

impl Prop for C06 {
    fn id(&self) -> &'static str {
        "C06"
    }
    fn units(&self, tier: Tier) -> Vec<Unit> {
        let q = tier == Tier::Quick;
        let mut v = Vec::new();
        for auth in [false, true] {
            for ch in 0..NCH {
                v.push(Unit::new(&format!("exh2_{}_{ch}", auth as u8), 1).with(json!({"auth": auth, "ch": ch, "len": 2, "lo": 0, "hi": 256})).fixed());
            }
        }
        if !q {
            // length 3 on the acknowledgement channel, the first event channel, the protocol-hash trigger channel and the
            // channel of the event with length-prefixed collections (the payload-less trigger's channel is covered up to length 2
            // and by the mutation layer: a fifth channel here would push the 16 workers' memory past what this machine has)
            for auth in [false, true] {
                for ch in [0usize, 1, 6, 7] {
                    for k in 0..16u32 {
                        v.push(Unit::new(&format!("exh3_{}_{ch}_{k:02}", auth as u8), 1).with(json!({"auth": auth, "ch": ch, "len": 3, "lo": k * 16, "hi": k * 16 + 16})).fixed());
                    }
                }
            }
        }
        v.push(Unit::new("mutated", if q { 40_000 } else { 1_500_000 }));
        v
    }
    fn run_unit(&self, unit: &Unit, cases: u32, seed: u64, stats: &mut Stats) -> Option<Failure> {
        if unit.name == "mutated" {
            return run_proptest("mutated", case_strategy(), cases, seed, 1500, stats, |c| guarded("C06", || run_mutated(c)));
        }
        let p = &unit.param;
        run_exhaustive(
            &unit.name,
            p["auth"].as_bool().unwrap(),
            p["ch"].as_u64().unwrap() as usize,
            p["len"].as_u64().unwrap() as usize,
            (p["lo"].as_u64().unwrap() as u32)..(p["hi"].as_u64().unwrap() as u32),
            stats,
        )
    }
    fn replay(&self, unit: &str, case: &Value) -> Outcome {
        if unit == "fuzz" {
            let d: Vec<u8> = serde_json::from_value(case.clone()).unwrap_or_default();
            return run_fuzz(&d);
        }
        if unit == "mutated" {
            return match serde_json::from_value::<Case>(case.clone()) {
                Ok(c) => run_mutated(&c),
                Err(e) => Outcome::failed(Fail::new("infra.replay", e.to_string())),
            };
        }
        let authorized = case["authorized"].as_bool().unwrap_or(false);
        let ch = case["chan"].as_u64().unwrap_or(0) as usize;
        let bytes: Vec<u8> = serde_json::from_value(case["bytes"].clone()).unwrap_or_default();
        let (mut sim, _) = session(authorized, 0);
        let mut out = Outcome::ok();
        out.fail = inject_with_honest(&mut sim, &[(ch, bytes)], true).or_else(|| serve_check(&mut sim, 1));
        out
    }
    fn rule(&self) -> String {
        "exhaustive units: EVERY byte string of length 0..2 (thorough: 0..3 on the acknowledgement, protocol-hash and target-trigger channels) on each of the 7 client \
         channels (acks, ProtocolHash trigger, plain / unordered / unreliable event, mapped event, trigger with targets), from an authorized and from an unauthorized \
         sender, injected into a running session with live mutate indices; mutated unit: genuine messages captured from the library's own client (acks, events, mapped \
         events, triggers with targets), mutated by truncate / extend / bit flip / splice / set / overwrite-with-varint-boundary (2^7k+-1, 2^31, 2^32-1, 2^63, 2^64-1), \
         1..3 messages per frame over 1..2 frames. oracle: App::update of the server does not panic (catch_unwind) and the process does not die (worker processes, trace-mode \
         re-run); the largest single allocation request during the frame (counting global allocator) is <= 64 KiB + 64 x received bytes; afterwards a well-behaved second \
         client gets a spawn, a despawn, mutations and one of its own events through and converges (C01 oracle). non-trivial = the message is non-empty and is not a genuine encoding"
            .into()
    }
    fn assumptions(&self) -> Vec<String> {
        vec![
            "the allocation clause is a threshold (64 KiB + 64 x bytes received in the frame), calibrated against well-formed traffic".into(),
            "the backend contract is kept: messages are only inserted for a client entity that exists".into(),
            "the harness ignores DisconnectRequest (the attacker stays connected: a stronger adversary)".into(),
        ]
    }
    fn shard_cases(&self) -> u32 {
        500
    }
}

/// libFuzzer entry (thorough tier): byte 0 = authorized bit + channel, byte 1 = which captured genuine message to start
/// from, byte 2 = how much of it to keep, rest = bytes appended. State is rebuilt for every input.
pub fn run_fuzz(data: &[u8]) -> Outcome {
    if data.len() < 3 {
        return Outcome::ok();
    }
    let authorized = data[0] & 1 == 1;
    let ch = ((data[0] >> 1) as usize) % NCH;
    guarded("C06", || {
        let (mut sim, captured) = session(authorized, data[0] >> 5);
        let mut msg: Vec<u8> = Vec::new();
        if !captured[ch].is_empty() && data[1] != 0 {
            let base = &captured[ch][data[1] as usize % captured[ch].len()];
            let keep = (data[2] as usize).min(base.len());
            msg.extend_from_slice(&base[..keep]);
        }
        msg.extend_from_slice(&data[3..]);
        let mut out = Outcome::ok();
        out.fail = inject_with_honest(&mut sim, &[(ch, msg)], true).or_else(|| serve_check(&mut sim, 1));
        out
    })
}
