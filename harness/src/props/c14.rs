//! C14: the protocol hash separates compatible from incompatible builds.
use bevy::prelude::*;
use bevy_replicon::prelude::*;
use bevy_replicon::shared::replication::replication_registry::rule_fns::RuleFns;
use proptest::prelude::*;
use proptest::strategy::ValueTree;
use serde::{Deserialize, Serialize};
use serde_json::Value;

use crate::common::*;

macro_rules! comps {
    ($($n:ident),*) => { $(#[derive(Component, Serialize, Deserialize, Clone)] pub struct $n(pub u8);)* };
}
comps!(X0, X1, X2, X3, X4);
macro_rules! events {
    ($($n:ident),*) => { $(#[derive(Event, Serialize, Deserialize, Clone)] pub struct $n(pub u8);)* };
}
events!(E0, E1, E2, E3, E4);
/// registered after the generated sequence on both sides of the end-to-end part: a mapped client event that the client
/// writes with an unmappable entity in the very frame in which it connects (seed C14r3)
#[derive(Event, Serialize, Deserialize, Clone, bevy::ecs::entity::MapEntities)]
pub struct MapEv(#[entities] pub Entity);

#[derive(Clone, Copy, Debug, PartialEq, Eq, Hash, Serialize, Deserialize)]
pub enum RegOp {
    Rep(u8),
    Prio(u8, u8),
    Once(u8),
    Bundle(u8),
    CEv(u8),
    CTr(u8),
    SEv(u8),
    STr(u8),
    IndE(u8),
    IndT(u8),
}

const PRIOS: [usize; 3] = [0, 2, 7];

macro_rules! with_comp {
    ($i:expr, $t:ident, $body:expr) => {
        match $i % 5 {
            0 => { type $t = X0; $body }
            1 => { type $t = X1; $body }
            2 => { type $t = X2; $body }
            3 => { type $t = X3; $body }
            _ => { type $t = X4; $body }
        }
    };
}
macro_rules! with_event {
    ($i:expr, $t:ident, $body:expr) => {
        match $i % 5 {
            0 => { type $t = E0; $body }
            1 => { type $t = E1; $body }
            2 => { type $t = E2; $body }
            3 => { type $t = E3; $body }
            _ => { type $t = E4; $body }
        }
    };
}

pub fn apply(app: &mut App, op: RegOp) {
    match op {
        RegOp::Rep(i) => with_comp!(i, T, { app.replicate::<T>(); }),
        RegOp::Prio(i, p) => with_comp!(i, T, { app.replicate_with_priority(PRIOS[p as usize % 3], RuleFns::<T>::default()); }),
        RegOp::Once(i) => with_comp!(i, T, { app.replicate_once::<T>(); }),
        RegOp::Bundle(i) => match i % 3 {
            0 => { app.replicate_bundle::<(X0, X1)>(); }
            1 => { app.replicate_bundle::<(X1, X0)>(); }
            _ => { app.replicate_bundle::<(X2, X3, X4)>(); }
        },
        RegOp::CEv(i) => with_event!(i, T, { app.add_client_event::<T>(Channel::Ordered); }),
        RegOp::CTr(i) => with_event!(i, T, { app.add_client_trigger::<T>(Channel::Ordered); }),
        RegOp::SEv(i) => with_event!(i, T, { app.add_server_event::<T>(Channel::Ordered); }),
        RegOp::STr(i) => with_event!(i, T, { app.add_server_trigger::<T>(Channel::Ordered); }),
        RegOp::IndE(i) => with_event!(i, T, { app.make_event_independent::<T>(); }),
        RegOp::IndT(i) => with_event!(i, T, { app.make_trigger_independent::<T>(); }),
    }
}

/// Canonical form: indices reduced, each registration at most once, independence marks only after what they refer to.
pub fn normalize(seq: &[RegOp]) -> Vec<RegOp> {
    let mut out: Vec<RegOp> = Vec::new();
    for &op in seq {
        let op = match op {
            RegOp::Rep(i) => RegOp::Rep(i % 5),
            RegOp::Prio(i, p) => RegOp::Prio(i % 5, p % 3),
            RegOp::Once(i) => RegOp::Once(i % 5),
            RegOp::Bundle(i) => RegOp::Bundle(i % 3),
            RegOp::CEv(i) => RegOp::CEv(i % 5),
            RegOp::CTr(i) => RegOp::CTr(i % 5),
            RegOp::SEv(i) => RegOp::SEv(i % 5),
            RegOp::STr(i) => RegOp::STr(i % 5),
            RegOp::IndE(i) => RegOp::IndE(i % 5),
            RegOp::IndT(i) => RegOp::IndT(i % 5),
        };
        // a registration happens once; an independence mark may be repeated (the call is accepted any number of times and
        // every call is a step of the sequence), at most three times here
        let repeats = out.iter().filter(|o| **o == op).count();
        if repeats >= if matches!(op, RegOp::IndE(_) | RegOp::IndT(_)) { 3 } else { 1 } {
            continue;
        }
        match op {
            RegOp::IndE(i) if !out.contains(&RegOp::SEv(i)) => continue,
            RegOp::IndT(i) if !out.contains(&RegOp::STr(i)) => continue,
            _ => {}
        }
        out.push(op);
    }
    out
}

pub fn build(seq: &[RegOp], auth: AuthMethod) -> App {
    build_with(seq, auth, false)
}

pub fn build_with(seq: &[RegOp], auth: AuthMethod, extra_mapped_event: bool) -> App {
    let mut app = App::new();
    app.add_plugins((MinimalPlugins, RepliconPlugins.set(RepliconSharedPlugin { auth_method: auth }).set(ServerPlugin { tick_policy: TickPolicy::EveryFrame, ..Default::default() })));
    for &op in &normalize(seq) {
        apply(&mut app, op);
    }
    if extra_mapped_event {
        app.add_mapped_client_event::<MapEv>(Channel::Ordered);
    }
    app.finish();
    app
}

macro_rules! fillers {
    ($($n:ident),*) => { $(#[derive(Component, Resource, Default)] pub struct $n;)* };
}
fillers!(N0, N1, N2, N3, N4, N5);

/// The same registrations in an app that is built differently in ways the protocol does not care about: `shape` bit 0-2 =
/// number of unrelated components / resources registered first, bit 3 = a dedicated server (no client plugins), bit 4 = a
/// pure client (no server plugins).
pub fn hash_of_shaped(seq: &[RegOp], shape: u8) -> ProtocolHash {
    let mut app = App::new();
    let shared = RepliconSharedPlugin { auth_method: AuthMethod::ProtocolCheck };
    if shape & 8 != 0 {
        app.add_plugins((MinimalPlugins, RepliconPlugins.build().disable::<ClientPlugin>().disable::<ClientEventPlugin>().set(shared)));
    } else if shape & 16 != 0 {
        app.add_plugins((MinimalPlugins, RepliconPlugins.build().disable::<ServerPlugin>().disable::<ServerEventPlugin>().set(shared)));
    } else {
        app.add_plugins((MinimalPlugins, RepliconPlugins.set(shared)));
    }
    let n = shape & 7;
    if n >= 1 {
        app.world_mut().register_component::<N0>();
    }
    if n >= 2 {
        app.init_resource::<N1>();
    }
    if n >= 3 {
        app.world_mut().register_component::<N2>();
        app.world_mut().spawn(N3);
    }
    if n >= 5 {
        app.init_resource::<N4>();
        app.init_resource::<N5>();
    }
    for &op in &normalize(seq) {
        apply(&mut app, op);
    }
    app.finish();
    *app.world().resource::<ProtocolHash>()
}

pub fn hash_of(seq: &[RegOp]) -> ProtocolHash {
    *build(seq, AuthMethod::ProtocolCheck).world().resource::<ProtocolHash>()
}

#[derive(Clone, Debug, Serialize, Deserialize)]
pub enum Edit {
    None,
    Swap(u16),
    Insert(u16, RegOp),
    Delete(u16),
    Replace(u16, RegOp),
}

#[derive(Clone, Debug, Serialize, Deserialize)]
pub struct Case {
    pub seq: Vec<RegOp>,
    pub edit: Edit,
    pub e2e: bool,
    /// how the second build of the unedited sequence differs in things that are not registrations (see `hash_of_shaped`)
    #[serde(default)]
    pub shape: u8,
}

pub fn edited(seq: &[RegOp], e: &Edit) -> Vec<RegOp> {
    let mut v = normalize(seq);
    match *e {
        Edit::None => {}
        Edit::Swap(i) => {
            if v.len() >= 2 {
                let p = pick(i, v.len() - 1);
                v.swap(p, p + 1);
            }
        }
        Edit::Insert(i, op) => {
            let p = pick(i, v.len() + 1);
            v.insert(p, op);
        }
        Edit::Delete(i) => {
            if !v.is_empty() {
                let p = pick(i, v.len());
                v.remove(p);
            }
        }
        Edit::Replace(i, op) => {
            if !v.is_empty() {
                let p = pick(i, v.len());
                v[p] = op;
            }
        }
    }
    v
}

fn run_e2e(a: &[RegOp], b: &[RegOp], equal: bool, reconnect: bool) -> Option<Fail> {
    use crate::sim::apps::{DisconnectRequests, MismatchSeen};
    let noisy = a.len() % 2 == 0;
    let mut server = build_with(a, AuthMethod::ProtocolCheck, true);
    let mut client = build_with(b, AuthMethod::ProtocolCheck, true);
    server.init_resource::<DisconnectRequests>();
    server.add_systems(PreUpdate, (|mut r: EventReader<DisconnectRequest>, mut log: ResMut<DisconnectRequests>| {
        for e in r.read() {
            log.0.push(e.client);
        }
    }).after(ServerSet::Receive));
    client.init_resource::<MismatchSeen>();
    client.add_observer(|_t: Trigger<ProtocolMismatch>, mut seen: ResMut<MismatchSeen>| {
        seen.0 += 1;
    });
    server.world_mut().resource_mut::<RepliconServer>().set_running(true);
    let id = server.world_mut().spawn(ConnectedClient { max_size: 1200 }).id();
    client.world_mut().resource_mut::<RepliconClient>().set_status(RepliconClientStatus::Connected);
    if noisy {
        // game logic that writes a mapped event with an entity the server has never heard of, in the connection frame
        client.add_systems(Update, |mut w: EventWriter<MapEv>, mut done: Local<bool>| {
            if !*done {
                w.write(MapEv(Entity::from_raw(9_999)));
                *done = true;
            }
        });
    }
    // a second connected peer whose undecodable bytes arrive on the same channel, in the same server frame, in front of
    // every message of the client under test (seed C14r6)
    let peer = if a.len() % 3 == 0 { Some(server.world_mut().spawn(ConnectedClient { max_size: 1200 }).id()) } else { None };
    // in half of the cases the link loses every client message that travels on a channel declared unreliable, as the channel
    // contract allows (on the unchanged tree the handshake travels on an ordered channel; seed C14r9)
    let lossy = (a.len() + b.len()) % 2 == 1;
    let unreliable: Vec<bool> = client
        .world()
        .resource::<bevy_replicon::shared::backend::channels::RepliconChannels>()
        .client_channels()
        .iter()
        .map(|c| matches!(c, Channel::Unreliable))
        .collect();
    let exchange = move |server: &mut App, client: &mut App, id: Entity| {
        for _ in 0..4 {
            client.update();
            let sent: Vec<_> = client.world_mut().resource_mut::<RepliconClient>().drain_sent().collect();
            for (ch, m) in sent {
                if lossy && unreliable.get(ch).copied().unwrap_or(false) {
                    continue;
                }
                if let Some(p) = peer {
                    server.world_mut().resource_mut::<RepliconServer>().insert_received(p, ch, vec![0xffu8, 0xff, 0xff, 0xff, 0xff, 0xff]);
                }
                server.world_mut().resource_mut::<RepliconServer>().insert_received(id, ch, m);
            }
            server.update();
            let sent: Vec<_> = server.world_mut().resource_mut::<RepliconServer>().drain_sent().collect();
            for (e, ch, m) in sent {
                if e == id {
                    client.world_mut().resource_mut::<RepliconClient>().insert_received(ch, m);
                }
            }
        }
        client.update();
    };
    exchange(&mut server, &mut client, id);
    // second session of the same client app: the handshake must work again
    let mut id = id;
    if reconnect {
        client.world_mut().resource_mut::<RepliconClient>().set_status(RepliconClientStatus::Disconnected);
        server.world_mut().entity_mut(id).despawn();
        client.update();
        server.update();
        let _ = client.world_mut().resource_mut::<RepliconClient>().drain_sent().count();
        let _ = server.world_mut().resource_mut::<RepliconServer>().drain_sent().count();
        client.world_mut().resource_mut::<MismatchSeen>().0 = 0;
        server.world_mut().resource_mut::<DisconnectRequests>().0.clear();
        id = server.world_mut().spawn(ConnectedClient { max_size: 1200 }).id();
        client.world_mut().resource_mut::<RepliconClient>().set_status(RepliconClientStatus::Connected);
        exchange(&mut server, &mut client, id);
    }
    let authorized = server.world().entity(id).contains::<AuthorizedClient>();
    let seen = client.world().resource::<MismatchSeen>().0;
    let requested = server.world().resource::<DisconnectRequests>().0.contains(&id);
    if equal {
        if !authorized {
            return Some(Fail::new("C14.e2e_not_authorized", "client with an identical registration sequence was not authorized".to_string()));
        }
        if seen != 0 || requested {
            return Some(Fail::new("C14.e2e_spurious_mismatch", "matching client was told about a mismatch / asked to disconnect".to_string()));
        }
    } else {
        if authorized {
            return Some(Fail::new("C14.e2e_authorized", "client with a different registration sequence was authorized".to_string()));
        }
        if seen == 0 {
            return Some(Fail::new("C14.e2e_not_notified", "mismatching client was not notified".to_string()));
        }
        if !requested {
            return Some(Fail::new("C14.e2e_no_disconnect_request", "no disconnect request for the mismatching client".to_string()));
        }
    }
    None
}

pub fn run(c: &Case) -> Outcome {
    let a = normalize(&c.seq);
    let b = normalize(&edited(&c.seq, &c.edit));
    let equal = a == b;
    let ha = hash_of(&a);
    let ha2 = hash_of(&a);
    if ha != ha2 {
        return Outcome::failed(Fail::new("C14.nondeterministic", format!("same sequence hashed to {ha:?} and {ha2:?}")));
    }
    if c.shape != 0 {
        let hs = hash_of_shaped(&a, c.shape);
        if hs != ha {
            return Outcome::failed(Fail::new(
                "C14.unrelated_state",
                format!("the same registration sequence {a:?} hashes to {ha:?} in a plain app and to {hs:?} in an app of shape {:#07b} (unrelated components / resources, disabled plugins)", c.shape),
            ));
        }
    }
    let hb = hash_of(&b);
    if equal && ha != hb {
        return Outcome::failed(Fail::new("C14.equal_differ", format!("equal sequences {a:?} hash differently")));
    }
    if !equal && ha == hb {
        return Outcome::failed(Fail::new("C14.collision", format!("different sequences hash equally: {a:?} vs {b:?} ({ha:?})")));
    }
    if c.e2e {
        if let Some(f) = run_e2e(&a, &b, equal, c.seq.len() % 2 == 1) {
            return Outcome::failed(f);
        }
    }
    let mut out = Outcome::ok();
    out.nontrivial = !equal && a.len() >= 3;
    out.classes.push(match c.edit {
        Edit::None => "identical",
        Edit::Swap(_) => "swap",
        Edit::Insert(..) => "insert",
        Edit::Delete(_) => "delete",
        Edit::Replace(..) => "replace",
    });
    if c.e2e {
        out.classes.push("e2e");
    }
    if c.shape != 0 {
        out.classes.push("differently_built_app");
    }
    out
}

fn regop() -> impl Strategy<Value = RegOp> {
    prop_oneof![
        3 => (0u8..5).prop_map(RegOp::Rep),
        2 => (0u8..5, 0u8..3).prop_map(|(i, p)| RegOp::Prio(i, p)),
        1 => (0u8..5).prop_map(RegOp::Once),
        1 => (0u8..3).prop_map(RegOp::Bundle),
        2 => (0u8..5).prop_map(RegOp::CEv),
        2 => (0u8..5).prop_map(RegOp::CTr),
        3 => (0u8..5).prop_map(RegOp::SEv),
        3 => (0u8..5).prop_map(RegOp::STr),
        2 => (0u8..5).prop_map(RegOp::IndE),
        2 => (0u8..5).prop_map(RegOp::IndT),
    ]
}

fn case_strategy() -> impl Strategy<Value = Case> {
    let edit = prop_oneof![
        1 => Just(Edit::None),
        2 => any::<u16>().prop_map(Edit::Swap),
        2 => (any::<u16>(), regop()).prop_map(|(i, o)| Edit::Insert(i, o)),
        2 => any::<u16>().prop_map(Edit::Delete),
        3 => (any::<u16>(), regop()).prop_map(|(i, o)| Edit::Replace(i, o)),
    ];
    let shape = prop_oneof![2 => Just(0u8), 3 => 1u8..32];
    (proptest::collection::vec(regop(), 0..12), edit, proptest::bool::weighted(0.15), shape).prop_map(|(seq, edit, e2e, shape)| Case { seq, edit, e2e, shape })
}

pub struct C14;

impl Prop for C14 {
    fn id(&self) -> &'static str {
        "C14"
    }
    fn units(&self, tier: Tier) -> Vec<Unit> {
        let q = tier == Tier::Quick;
        vec![Unit::new("pairs", if q { 60_000 } else { 1_000_000 }), Unit::new("cross_process", if q { 8 } else { 64 }).fixed()]
    }
    fn run_unit(&self, unit: &Unit, cases: u32, seed: u64, stats: &mut Stats) -> Option<Failure> {
        if unit.name == "cross_process" {
            // the same sequence hashed in a separate process (fresh address space, fresh hasher state)
            let mut runner = proptest::test_runner::TestRunner::new(proptest::test_runner::Config {
                rng_seed: proptest::test_runner::RngSeed::Fixed(seed),
                failure_persistence: None,
                ..Default::default()
            });
            for _ in 0..cases {
                let seq = proptest::collection::vec(regop(), 0..12).new_tree(&mut runner).unwrap().current();
                let seq = normalize(&seq);
                let here = hash_of(&seq);
                let arg = serde_json::to_string(&seq).unwrap();
                let outp = std::process::Command::new(std::env::current_exe().unwrap()).args(["hash", &arg]).output();
                let there = outp.ok().map(|o| String::from_utf8_lossy(&o.stdout).trim().to_string()).unwrap_or_default();
                let mut out = Outcome::ok();
                out.nontrivial = seq.len() >= 3;
                out.classes.push("cross_process");
                if there != format!("{here:?}") {
                    out.fail = Some(Fail::new("C14.cross_process", format!("sequence {seq:?}: {here:?} here, {there} in another process")));
                }
                let case = serde_json::to_value(&seq).unwrap();
                stats.record(|| case.clone(), hash_str(&arg), &out);
                if let Some(f) = out.fail {
                    return Some(Failure { unit: unit.name.clone(), case, fail: f });
                }
            }
            return None;
        }
        run_proptest("pairs", case_strategy(), cases, seed, 3000, stats, |c| guarded("C14", || run(c)))
    }
    fn replay(&self, unit: &str, case: &Value) -> Outcome {
        if unit == "cross_process" {
            return Outcome::ok();
        }
        match serde_json::from_value::<Case>(case.clone()) {
            Ok(c) => run(&c),
            Err(e) => Outcome::failed(Fail::new("infra.replay", e.to_string())),
        }
    }
    fn rule(&self) -> String {
        "case = registration sequence (0..12 ops over replicate / replicate_with_priority / replicate_once / replicate_bundle over 5 component types, client/server \
         events and triggers over 5 event types, independence marks only after what they refer to, each registration at most once) plus one edit (none, swap of \
         neighbours, insert, delete, replace); oracle: hashes equal <=> canonical sequences equal, the same sequence hashes identically twice (in a separate \
         process, unit cross_process; and in an app that first registers 1..5 unrelated components / resources or is built as a dedicated server / pure client); 15% of the cases also run end to end with AuthMethod::ProtocolCheck: authorized <=> equal, otherwise ProtocolMismatch reaches \
         the client and a DisconnectRequest names it. non-trivial = the pair differs and the sequence has >= 3 registrations"
            .into()
    }
    fn assumptions(&self) -> Vec<String> {
        vec!["a false alarm would need a 64-bit FNV collision between two short byte streams".into(), "SendRate values (period lengths) are not part of the statement and are not varied".into()]
    }
    fn shard_cases(&self) -> u32 {
        750
    }
}
