//! Registry of properties.
use crate::common::Prop;

pub mod engine;

pub fn ids() -> Vec<&'static str> {
    vec!["C01", "C02", "C03", "C04", "C05", "C07", "C08", "C09", "C16"]
}

pub fn get(id: &str) -> Option<Box<dyn Prop>> {
    Some(match id {
        "C01" => Box::new(engine::c01()),
        "C02" => Box::new(engine::c02()),
        "C03" => Box::new(engine::c03()),
        "C04" => Box::new(engine::c04()),
        "C05" => Box::new(engine::c05()),
        "C07" => Box::new(engine::c07()),
        "C08" => Box::new(engine::c08()),
        "C09" => Box::new(engine::c09()),
        "C16" => Box::new(engine::c16()),
        _ => return None,
    })
}
