//! Registry of properties.
use crate::common::Prop;

pub mod c06;
pub mod c10;
pub mod c11;
pub mod c12;
pub mod c13;
pub mod c14;
pub mod c15;
pub mod c17;
pub mod c18;
pub mod engine;

pub fn ids() -> Vec<&'static str> {
    vec!["C01", "C02", "C03", "C04", "C05", "C06", "C07", "C08", "C09", "C10", "C11", "C12", "C13", "C14", "C15", "C16", "C17", "C18"]
}

pub fn get(id: &str) -> Option<Box<dyn Prop>> {
    Some(match id {
        "C01" => Box::new(engine::c01()),
        "C02" => Box::new(engine::c02()),
        "C03" => Box::new(engine::c03()),
        "C04" => Box::new(engine::c04()),
        "C05" => Box::new(engine::c05()),
        "C06" => Box::new(c06::C06),
        "C07" => Box::new(engine::c07()),
        "C08" => Box::new(engine::c08()),
        "C09" => Box::new(engine::c09()),
        "C10" => Box::new(c10::C10),
        "C11" => Box::new(c11::c11()),
        "C12" => Box::new(c12::c12()),
        "C13" => Box::new(c13::C13),
        "C14" => Box::new(c14::C14),
        "C15" => Box::new(c15::C15),
        "C16" => Box::new(engine::c16()),
        "C17" => Box::new(c17::C17),
        "C18" => Box::new(c18::C18),
        _ => return None,
    })
}
