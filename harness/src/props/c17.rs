//! C17: the example transport preserves per-channel order and delivers exactly once (real loopback sockets).
use std::time::{Duration, Instant};

use bevy::prelude::*;
use bevy_replicon::prelude::*;
use bevy_replicon_example_backend::{ExampleClient, ExampleServer, RepliconExampleBackendPlugins};
use proptest::prelude::*;
use serde::{Deserialize, Serialize};
use serde_json::Value;

use crate::common::*;

macro_rules! evs {
    ($($n:ident),*) => { $(#[derive(Event, Serialize, Deserialize, Clone, Debug)] pub struct $n(pub u32, pub Vec<u8>);)* };
}
evs!(SA, SB, SC, CA, CB, CC, DS0, DS1, DS2, DC0, DC1, DC2);

/// (channel, seq, payload) in arrival order, with the receiver frame number.
#[derive(Resource, Default)]
struct Got(Vec<(u8, u32, Vec<u8>, u32)>);
/// Same for the client -> server direction (every app has both reader sets; a server also re-emits its own events locally).
#[derive(Resource, Default)]
struct GotUp(Vec<(u8, u32, Vec<u8>, u32)>);
#[derive(Resource, Default)]
struct FrameNo(u32);

fn payload(seq: u32, len: usize) -> Vec<u8> {
    (0..len).map(|i| (seq.wrapping_mul(31).wrapping_add(i as u32 * 7)) as u8).collect()
}

/// `layout` = (unused server events, unused client events) registered in front of the measured ones: the two directions
/// then have different numbers of channels and the measured channels get higher ids.
fn make_app(layout: (u8, u8)) -> App {
    let mut app = App::new();
    app.add_plugins((
        MinimalPlugins,
        RepliconPlugins.set(RepliconSharedPlugin { auth_method: AuthMethod::None }).set(ServerPlugin { tick_policy: TickPolicy::EveryFrame, ..Default::default() }),
        RepliconExampleBackendPlugins,
    ));
    if layout.0 >= 1 {
        app.add_server_event::<DS0>(Channel::Ordered);
    }
    if layout.0 >= 2 {
        app.add_server_event::<DS1>(Channel::Unreliable);
    }
    if layout.0 >= 3 {
        app.add_server_event::<DS2>(Channel::Unordered);
    }
    if layout.1 >= 1 {
        app.add_client_event::<DC0>(Channel::Ordered);
    }
    if layout.1 >= 2 {
        app.add_client_event::<DC1>(Channel::Unreliable);
    }
    if layout.1 >= 3 {
        app.add_client_event::<DC2>(Channel::Unordered);
    }
    app.add_server_event::<SA>(Channel::Ordered)
        .add_server_event::<SB>(Channel::Ordered)
        .add_server_event::<SC>(Channel::Unordered)
        .make_event_independent::<SA>()
        .make_event_independent::<SB>()
        .make_event_independent::<SC>()
        .add_client_event::<CA>(Channel::Ordered)
        .add_client_event::<CB>(Channel::Ordered)
        .add_client_event::<CC>(Channel::Unordered)
        .init_resource::<Got>()
        .init_resource::<GotUp>()
        .init_resource::<FrameNo>();
    app.add_systems(First, |mut f: ResMut<FrameNo>| f.0 += 1);
    app.add_systems(
        PreUpdate,
        (
            |mut r: EventReader<SA>, mut g: ResMut<Got>, f: Res<FrameNo>| {
                for e in r.read() {
                    g.0.push((0, e.0, e.1.clone(), f.0));
                }
            },
            |mut r: EventReader<SB>, mut g: ResMut<Got>, f: Res<FrameNo>| {
                for e in r.read() {
                    g.0.push((1, e.0, e.1.clone(), f.0));
                }
            },
            |mut r: EventReader<SC>, mut g: ResMut<Got>, f: Res<FrameNo>| {
                for e in r.read() {
                    g.0.push((2, e.0, e.1.clone(), f.0));
                }
            },
        )
            .after(ClientSet::Receive),
    );
    app.add_systems(
        PreUpdate,
        (
            |mut r: EventReader<FromClient<CA>>, mut g: ResMut<GotUp>, f: Res<FrameNo>| {
                for e in r.read() {
                    g.0.push((0, e.event.0, e.event.1.clone(), f.0));
                }
            },
            |mut r: EventReader<FromClient<CB>>, mut g: ResMut<GotUp>, f: Res<FrameNo>| {
                for e in r.read() {
                    g.0.push((1, e.event.0, e.event.1.clone(), f.0));
                }
            },
            |mut r: EventReader<FromClient<CC>>, mut g: ResMut<GotUp>, f: Res<FrameNo>| {
                for e in r.read() {
                    g.0.push((2, e.event.0, e.event.1.clone(), f.0));
                }
            },
        )
            .after(ServerSet::Receive),
    );
    app.finish();
    app
}

#[derive(Clone, Debug, Serialize, Deserialize)]
pub struct Batch {
    /// true: server -> all clients (broadcast); false: from client `from` to the server
    pub down: bool,
    #[serde(default)]
    pub from: u8,
    /// the batch is spread over this many sender frames (1..4) before the receiver runs a frame
    #[serde(default)]
    pub frames: u8,
    /// (server -> clients only, >= 2 clients) first send one client a message too large for the 16-bit frame header: that
    /// client is dropped by the backend; everybody else must still get every ordinary message exactly once and in order
    #[serde(default)]
    pub poison: Option<u8>,
    /// (channel 0..3, payload size)
    pub msgs: Vec<(u8, u16)>,
}

#[derive(Clone, Debug, Serialize, Deserialize)]
pub struct Case {
    #[serde(default)]
    pub clients: u8,
    pub batches: Vec<Batch>,
    /// (unused server events, unused client events) registered before the measured ones, 0..=3 each
    #[serde(default)]
    pub layout: (u8, u8),
    /// messages exchanged in each direction before the batches (60 per frame, lock-step): a long-lived connection
    /// (per-connection counters of the transport far beyond what a short test reaches)
    #[serde(default)]
    pub preload: u32,
}

pub fn run(c: &Case) -> Outcome {
    let n = (c.clients as usize).clamp(1, 3);
    let layout = (c.layout.0.min(3), c.layout.1.min(3));
    let mut server = make_app(layout);
    let mut clients: Vec<App> = (0..n).map(|_| make_app(layout)).collect();
    let sock = match ExampleServer::new(0) {
        Ok(s) => s,
        Err(e) => return Outcome::failed(Fail::new("infra.socket", format!("cannot open server socket: {e}"))),
    };
    let port = sock.local_addr().unwrap().port();
    server.insert_resource(sock);
    for client in &mut clients {
        match ExampleClient::new(port) {
            Ok(s) => client.insert_resource(s),
            Err(e) => return Outcome::failed(Fail::new("infra.socket", format!("cannot connect: {e}"))),
        };
    }
    let t0 = Instant::now();
    loop {
        server.update();
        for client in &mut clients {
            client.update();
        }
        let k = server.world_mut().query::<&ConnectedClient>().iter(server.world()).count();
        if k == n && clients.iter().all(|c| c.world().resource::<RepliconClient>().is_connected()) {
            break;
        }
        if t0.elapsed() > Duration::from_secs(5) {
            return Outcome::failed(Fail::new("infra.socket", "connection was not established within 5 s".to_string()));
        }
    }
    let mut seq = 0u32;
    let mut max_in_frame = 0usize;
    let mut alive = vec![true; n];
    let mut ids: Vec<Entity> = Vec::new();
    {
        // connection order = client order (each client connected before the next one was created? no: all connect in the
        // first frames) - identify the server-side entity of every client through its network id (the local port)
        let mut q = server.world_mut().query::<(Entity, &bevy_replicon::shared::backend::connected_client::NetworkId)>();
        let pairs: Vec<(Entity, u64)> = q.iter(server.world()).map(|(e, id)| (e, id.get())).collect();
        for c in &clients {
            let port = c.world().resource::<ExampleClient>().local_addr().map(|a| a.port() as u64).unwrap_or(0);
            ids.push(pairs.iter().find(|p| p.1 == port).map(|p| p.0).unwrap_or(Entity::PLACEHOLDER));
        }
    }
    if c.preload > 0 {
        let pre = (c.preload as usize).min(70_000);
        for down in [true, false] {
            let mut sent = 0usize;
            while sent < pre {
                for _ in 0..60.min(pre - sent) {
                    seq += 1;
                    sent += 1;
                    if down {
                        server.world_mut().send_event(ToClients { mode: SendMode::Broadcast, event: SA(seq, Vec::new()) });
                    } else {
                        clients[0].world_mut().send_event(CA(seq, Vec::new()));
                    }
                }
                server.update();
                for client in &mut clients {
                    client.update();
                }
                if !down {
                    server.update();
                }
            }
            let t1 = Instant::now();
            loop {
                let done = if down { clients.iter().all(|c| c.world().resource::<Got>().0.len() >= pre) } else { server.world().resource::<GotUp>().0.len() >= pre };
                if done {
                    break;
                }
                if t1.elapsed() > Duration::from_secs(5) {
                    return Outcome::failed(Fail::new("C17.lost", format!("{} of the {pre} messages of the warm-up phase never arrived", if down { "server->client: some" } else { "client->server: some" })));
                }
                server.update();
                for client in &mut clients {
                    client.update();
                }
                std::thread::sleep(Duration::from_micros(200));
            }
            // the warm-up traffic is held to the same standard
            for (r, client) in clients.iter().enumerate() {
                let seqs: Vec<u32> = if down { client.world().resource::<Got>().0.iter().map(|g| g.1).collect() } else { server.world().resource::<GotUp>().0.iter().map(|g| g.1).collect() };
                if seqs.windows(2).any(|w| w[0] >= w[1]) || seqs.len() != pre {
                    let bad = seqs.windows(2).position(|w| w[0] >= w[1]).unwrap_or(0);
                    return Outcome::failed(Fail::new("C17.order", format!("warm-up phase, {} (receiver {r}): {} messages, first disorder at position {bad}: {:?}", if down { "server->client" } else { "client->server" }, seqs.len(), &seqs[bad.saturating_sub(2)..(bad + 3).min(seqs.len())])));
                }
                if !down {
                    break;
                }
            }
            for client in &mut clients {
                client.world_mut().resource_mut::<Got>().0.clear();
            }
            server.world_mut().resource_mut::<GotUp>().0.clear();
        }
    }
    for b in &c.batches {
        if b.down && !alive.iter().any(|a| *a) {
            continue;
        }
        if !b.down && !alive[b.from as usize % n] {
            continue;
        }
        let mut poisoned: Option<usize> = None;
        if b.down && n >= 2 {
            if let Some(k) = b.poison {
                let k = k as usize % n;
                if alive[k] && alive.iter().filter(|a| **a).count() >= 2 && ids[k] != Entity::PLACEHOLDER {
                    server.world_mut().send_event(ToClients { mode: SendMode::Direct(ids[k]), event: SA(0, vec![7u8; 70_000]) });
                    poisoned = Some(k);
                    alive[k] = false;
                }
            }
        }
        let from = b.from as usize % n;
        if b.down {
            for c in &mut clients {
                c.world_mut().resource_mut::<Got>().0.clear();
            }
        } else {
            server.world_mut().resource_mut::<GotUp>().0.clear();
        }
        let mut total = 0usize;
        let mut sent: Vec<Vec<(u32, Vec<u8>)>> = vec![Vec::new(); 3];
        let nframes = (b.frames as usize).clamp(1, 4);
        let per_frame = b.msgs.len().div_ceil(nframes).max(1);
        for (mi, &(ch, size)) in b.msgs.iter().enumerate() {
            if mi > 0 && mi % per_frame == 0 {
                // next sender frame: what was queued so far leaves now, the receiver is still stalled
                if b.down { server.update() } else { clients[from].update() }
            }
            let size = (size as usize).min(1200);
            if (total + size) * if b.down { n } else { 1 } > 32 * 1024 {
                break;
            }
            total += size;
            seq += 1;
            let p = payload(seq, size);
            let ch = ch % 3;
            sent[ch as usize].push((seq, p.clone()));
            if b.down {
                let w = server.world_mut();
                match ch {
                    0 => {
                        w.send_event(ToClients { mode: SendMode::Broadcast, event: SA(seq, p) });
                    }
                    1 => {
                        w.send_event(ToClients { mode: SendMode::Broadcast, event: SB(seq, p) });
                    }
                    _ => {
                        w.send_event(ToClients { mode: SendMode::Broadcast, event: SC(seq, p) });
                    }
                }
            } else {
                let w = clients[from].world_mut();
                match ch {
                    0 => {
                        w.send_event(CA(seq, p));
                    }
                    1 => {
                        w.send_event(CB(seq, p));
                    }
                    _ => {
                        w.send_event(CC(seq, p));
                    }
                }
            }
        }
        let expected: usize = sent.iter().map(|v| v.len()).sum();
        let down = b.down;
        // the whole batch leaves in one sender frame, i.e. piles up between two frames of each receiver
        if down {
            server.update();
        } else {
            clients[from].update();
        }
        let nrx = if down { n } else { 1 };
        let mut gots: Vec<Vec<(u8, u32, Vec<u8>, u32)>> = Vec::new();
        let _ = poisoned;
        for r in 0..nrx {
            if down && !alive[r] {
                // dropped by the backend (now or earlier): nothing is promised to it any more
                clients[r].update();
                gots.push(Vec::new());
                continue;
            }
            let rx: &mut App = if down { &mut clients[r] } else { &mut server };
            let got_len = |w: &World| if down { w.resource::<Got>().0.len() } else { w.resource::<GotUp>().0.len() };
            let t1 = Instant::now();
            loop {
                rx.update();
                if got_len(rx.world()) >= expected {
                    break;
                }
                if t1.elapsed() > Duration::from_secs(2) {
                    break;
                }
                std::thread::sleep(Duration::from_micros(200));
            }
            // one more frame to catch duplicates
            rx.update();
            gots.push(if down { rx.world().resource::<Got>().0.clone() } else { rx.world().resource::<GotUp>().0.clone() });
        }
        for (r, got) in gots.iter().enumerate() {
            if down && !alive[r] {
                continue;
            }
            let mut per_frame: std::collections::BTreeMap<u32, usize> = Default::default();
            for g in got {
                *per_frame.entry(g.3).or_default() += 1;
            }
            max_in_frame = max_in_frame.max(per_frame.values().copied().max().unwrap_or(0));
            let dir = if down { format!("server->client {r}") } else { format!("client {from}->server") };
            for ch in 0..3u8 {
                let g: Vec<(u32, &Vec<u8>)> = got.iter().filter(|x| x.0 == ch).map(|x| (x.1, &x.2)).collect();
                let s = &sent[ch as usize];
                let gs: Vec<u32> = g.iter().map(|x| x.0).collect();
                let ss: Vec<u32> = s.iter().map(|x| x.0).collect();
                if gs != ss {
                    let mut a = gs.clone();
                    a.sort();
                    let class = if a == ss {
                        "C17.order"
                    } else if gs.len() < ss.len() {
                        "C17.lost"
                    } else {
                        "C17.duplicate"
                    };
                    return Outcome::failed(Fail::new(class, format!("{dir} channel {ch}: sent {ss:?}, received {gs:?}")));
                }
                for (i, (q, p)) in g.iter().enumerate() {
                    if **p != s[i].1 {
                        return Outcome::failed(Fail::new("C17.payload", format!("{dir} channel {ch} message {q}: payload changed ({} bytes sent, {} received)", s[i].1.len(), p.len())));
                    }
                }
            }
        }
    }
    let mut out = Outcome::ok();
    out.nontrivial = max_in_frame >= 8;
    if max_in_frame >= 8 {
        out.classes.push("ge8_messages_in_one_receiver_frame");
    }
    if max_in_frame >= 24 {
        out.classes.push("ge24_messages_in_one_receiver_frame");
    }
    if n >= 2 {
        out.classes.push("several_clients");
    }
    if c.preload > 0 {
        out.classes.push("long_lived_connection");
    }
    if alive.iter().any(|a| !*a) {
        out.classes.push("one_client_dropped_by_an_oversize_message");
    }
    out
}

fn case_strategy() -> impl Strategy<Value = Case> {
    let size = prop_oneof![3 => 0u16..40, 2 => 0u16..=1200, 1 => prop_oneof![Just(0u16), Just(1), Just(255), Just(256), Just(1199), Just(1200)]];
    let batch = (any::<bool>(), 0u8..3, proptest::collection::vec((0u8..3, size), 1..48), prop_oneof![2 => Just(1u8), 1 => 2u8..=4], proptest::option::weighted(0.12, 0u8..3))
        .prop_map(|(down, from, msgs, frames, poison)| Batch { down, from, msgs, frames, poison });
    let layout = prop_oneof![2 => Just((0u8, 0u8)), 3 => (0u8..=3, 0u8..=3)];
    (1u8..=3, proptest::collection::vec(batch, 1..4), layout).prop_map(|(clients, batches, layout)| Case { clients, batches, layout, preload: 0 })
}

/// Long-lived connections: 65 300..65 535 messages in each direction first, then the ordinary batches (which then straddle
/// the 16-bit mark of anything the transport counts per connection).
fn long_strategy() -> impl Strategy<Value = Case> {
    (case_strategy(), 65_300u32..65_536, 1u8..=2).prop_map(|(c, preload, clients)| Case { preload, clients, layout: (0, 0), ..c })
}

pub struct C17;

impl Prop for C17 {
    fn id(&self) -> &'static str {
        "C17"
    }
    fn units(&self, tier: Tier) -> Vec<Unit> {
        vec![Unit::new("batches", if tier == Tier::Quick { 20_000 } else { 300_000 }), Unit::new("long_session", if tier == Tier::Quick { 16 } else { 160 })]
    }
    fn run_unit(&self, unit: &Unit, cases: u32, seed: u64, stats: &mut Stats) -> Option<Failure> {
        if unit.name == "long_session" {
            return run_proptest(&unit.name, long_strategy(), cases, seed, 20, stats, |c| guarded("C17", || run(c)));
        }
        run_proptest(&unit.name, case_strategy(), cases, seed, 300, stats, |c| guarded("C17", || run(c)))
    }
    fn replay(&self, _unit: &str, case: &Value) -> Outcome {
        match serde_json::from_value::<Case>(case.clone()) {
            Ok(c) => run(&c),
            Err(e) => Outcome::failed(Fail::new("infra.replay", e.to_string())),
        }
    }
    fn rule(&self) -> String {
        "case = 1..3 connected clients and 1..3 batches (server -> all clients by broadcast, or one client -> server), each 1..47 messages of 0..1200 payload bytes on 3 channels (2 ordered, 1 unordered) in one direction, with 0..3 further (unused) server and client events registered in front so that the directions have different channel counts and ids, queued in ONE sender frame or spread over 2..4 sender frames while the receiver is stalled, so they pile \
         up between two receiver frames; real loopback TCP sockets of the example backend, no conditioner; carried by independent events (seq, payload); unit long_session: the same after 65 300..65 535 messages in each direction on the same connections. oracle: per channel \
         the received (seq, payload) sequence equals the sent one (order, multiplicity, bytes), judged on the concatenated arrival sequence; only a message still missing 2 s \
         after sending counts as lost. non-trivial = >= 8 messages were handed to the receiver's game logic within one frame (measured on arrival)"
            .into()
    }
    fn assumptions(&self) -> Vec<String> {
        vec![
            "kernel loopback; batches stay below 32 KiB so socket buffers never fill".into(),
            "the unordered channel is also checked for order because TCP + the conditioner without configuration preserve it; the statement says per channel in sending order".into(),
        ]
    }
    fn shard_cases(&self) -> u32 {
        100
    }
}
