//! C11: acknowledged data is not re-sent and an idle server is silent.
use proptest::prelude::*;
use serde::{Deserialize, Serialize};
use serde_json::Value;

use crate::common::*;
use crate::props::engine::EngineProp;
use crate::sim::generate::Profile;
use crate::sim::oracle::{check_converged, check_silence};
use crate::sim::*;

#[derive(Clone, Debug, Serialize, Deserialize)]
pub struct Resend {
    pub sync: bool,
    pub track: bool,
    pub children: bool,
    /// acknowledgement timeout in ms (frames are 10 ms): 30 is shorter than the simulated round trip
    pub timeout_ms: u64,
    pub entities: u8,
    /// ticks during which acknowledgements are withheld; per tick: deliver (true) or lose (false) the mutate messages
    pub hold: Vec<bool>,
    /// frames without a tick between the ticks of the hold phase
    pub idle_frames: u8,
    /// bytes appended to the acknowledgement stream before the genuine acks are released
    pub junk: Vec<Vec<u8>>,
    pub mutate_again: bool,
    pub vis: u8,
    /// after the hold phase the entity gets a structural change (delivered reliably) before the old acknowledgements arrive
    #[serde(default)]
    pub insert_before_release: bool,
    /// acknowledgement-channel messages of a connected peer that the game never authorizes, arriving in the same server
    /// frame in front of the genuine acknowledgements (custom authorization, third client)
    #[serde(default)]
    pub peer_acks: Vec<Vec<u8>>,
    /// one very long server frame (11 s of real time; Bevy's virtual clock advances by at most 250 ms per frame) before
    /// the change: every clock the acknowledgement bookkeeping reads must be the same one
    #[serde(default)]
    pub hitch: bool,
    /// tick-less server frames (0..3) that pass between the last tick of the hold phase and the arrival of the
    /// acknowledgements - only as many as keep the acknowledgement of the last message younger than the timeout
    #[serde(default)]
    pub ack_delay: u8,
}

pub fn run_resend(c: &Resend) -> Outcome {
    let n = (c.entities as usize).clamp(1, 5);
    let peer = !c.peer_acks.is_empty();
    let cfg = Cfg {
        clients: if peer { 3 } else { 2 },
        auth: if peer { 1 } else { 0 },
        policy: 0,
        vis: c.vis % 2, // all or blacklist
        sync: c.sync,
        children: c.children || c.sync,
        track: c.track,
        timeout_ms: c.timeout_ms,
        slots: 5,
        ..Cfg::default()
    };
    let mut sim = Sim::new(&cfg, Oracles::default());
    sim.connect(0);
    sim.connect(1);
    if peer {
        sim.authorize(0);
        sim.authorize(1);
        sim.connect(2);
    }
    for slot in 0..n {
        sim.step(&Step::Spawn { slot, marked: true, comps: vec![K::A, K::C] });
    }
    if cfg.children && n >= 2 {
        sim.step(&Step::SetParent { slot: 1, parent: 0 });
    }
    for _ in 0..3 {
        sim.lockstep_round();
    }
    // idle baseline: length of the per-tick message with tracking (0 messages otherwise)
    sim.step(&Step::ServerFrame { tick: true });
    let idle: Vec<usize> = sim.clients[0].s2c[1].iter().map(|m| m.bytes.len()).collect();
    if (c.track && idle.len() != 1) || (!c.track && !idle.is_empty()) {
        return Outcome::failed(Fail::new("C11.not_silent", format!("idle server sent mutate messages of lengths {idle:?} to client 0 (tracking {})", c.track)));
    }
    let idle_len = idle.first().copied().unwrap_or(0);
    sim.lockstep_round();

    if c.hitch {
        use bevy::time::TimeUpdateStrategy;
        sim.server.insert_resource(TimeUpdateStrategy::ManualDuration(std::time::Duration::from_secs(11)));
        sim.step(&Step::ServerFrame { tick: false });
        sim.server.insert_resource(TimeUpdateStrategy::ManualDuration(std::time::Duration::from_millis(10)));
        sim.lockstep_round();
    }
    // the change
    sim.step(&Step::Mutate { slot: 0, k: K::A });
    let mut held_acks = 0usize;
    for (i, &deliver) in c.hold.iter().enumerate() {
        for _ in 0..c.idle_frames % 3 {
            sim.step(&Step::ServerFrame { tick: false });
        }
        sim.step(&Step::ServerFrame { tick: true });
        let lens: Vec<usize> = sim.clients[0].s2c[1].iter().map(|m| m.bytes.len()).collect();
        let carries_data = if c.track { lens.iter().any(|l| *l > idle_len) } else { !lens.is_empty() };
        if !carries_data {
            return Outcome::failed(Fail::new(
                "C11.not_resent",
                format!("tick {i} of the hold phase: the unacknowledged mutation was not re-sent to client 0 (message lengths {lens:?}, idle length {idle_len})"),
            ));
        }
        if deliver {
            while sim.deliver_s2c(0, 1, 0) {}
        } else {
            sim.clients[0].s2c[1].clear();
        }
        sim.client_frame(0);
        held_acks = sim.clients[0].c2s[0].len();
        // the other client keeps a normal conversation
        for ch in 0..sim.skinds.len() {
            while sim.deliver_s2c(1, ch, 0) {}
        }
        sim.client_frame(1);
        while sim.deliver_c2s(1, 0, 0) {}
    }
    let last_delivered = c.hold.last().copied().unwrap_or(false);
    // The strict clause needs the acknowledgement of the LAST message to be honoured: that message is at most three frames
    // (30 ms) old when its acknowledgement arrives, so any timeout of 60 ms or more must still know it.
    let mut strict = c.timeout_ms >= 60 && c.junk.is_empty();
    if c.insert_before_release {
        // a structural change on the same entity: the update message carries its pending mutations, too, and is delivered
        let has_s = sim.slots[0].is_some_and(|e| sim.has_k(e, K::S));
        sim.step(&if has_s { Step::Remove { slot: 0, k: K::S } } else { Step::Insert { slot: 0, k: K::S } });
        sim.step(&Step::ServerFrame { tick: true });
        sim.clients[0].s2c[1].clear();
        while sim.deliver_s2c(0, 0, 0) {}
        sim.client_frame(0);
    } else if !last_delivered {
        strict = false;
    }
    // junk in front of / between the genuine acknowledgements
    for j in &c.junk {
        sim.step(&Step::JunkAck { client: 0, bytes: j.clone() });
    }
    for j in &c.peer_acks {
        sim.step(&Step::JunkAck { client: 2, bytes: j.clone() });
    }
    while peer && sim.deliver_c2s(2, 0, 0) {}
    if strict {
        let mut frames = (c.ack_delay % 4) as u64;
        while (frames + 2) * 10 >= c.timeout_ms {
            frames -= 1;
        }
        for _ in 0..frames {
            sim.step(&Step::ServerFrame { tick: false });
        }
    }
    if strict {
        // "stops being re-sent afterwards": the client has the latest data (last mutate message, or the update message) and
        // every acknowledgement now reaches the server; the very next tick must not carry the mutation again
        while sim.deliver_c2s(0, 0, 0) {}
        sim.step(&Step::ServerFrame { tick: true });
        let lens: Vec<usize> = sim.clients[0].s2c[1].iter().map(|m| m.bytes.len()).collect();
        let carries_data = if c.track { lens.iter().any(|l| *l > idle_len) } else { !lens.is_empty() };
        if carries_data {
            return Outcome::failed(Fail::new(
                "C11.resent_after_ack",
                format!("the mutation was sent again (message lengths {lens:?}, idle length {idle_len}) in the tick after all acknowledgements had arrived and the client had the data"),
            ));
        }
    }
    // release: everything is delivered; allow one more round trip (acks may name messages the timeout already forgot)
    for _ in 0..3 {
        sim.lockstep_round();
    }
    if let Some(f) = sim.fail.take() {
        return Outcome::failed(f);
    }
    sim.or.converge = true;
    if let Err(f) = check_converged(&mut sim) {
        return Outcome::failed(Fail::new("C11.skipped_data", format!("after lost / late / junk acknowledgements a client misses data: {}", f.msg)));
    }
    if let Err(f) = check_silence(&mut sim) {
        return Outcome::failed(f);
    }
    if c.mutate_again {
        sim.step(&Step::Mutate { slot: 0, k: K::A });
        sim.step(&Step::ServerFrame { tick: true });
        let lens: Vec<usize> = sim.clients[0].s2c[1].iter().map(|m| m.bytes.len()).collect();
        let carries_data = if c.track { lens.iter().any(|l| *l > idle_len) } else { !lens.is_empty() };
        if !carries_data {
            return Outcome::failed(Fail::new("C11.not_resumed", "a change after the idle phase produced no mutate message".to_string()));
        }
        for _ in 0..3 {
            sim.lockstep_round();
        }
        if let Err(f) = check_converged(&mut sim) {
            return Outcome::failed(Fail::new("C11.skipped_data", format!("after the idle phase: {}", f.msg)));
        }
    }
    let mut out = Outcome::ok();
    out.nontrivial = c.hold.iter().any(|d| !*d) || held_acks >= 2 || !c.junk.is_empty();
    if c.sync {
        out.classes.push("registered_relationship_graph");
    }
    if c.timeout_ms < 100 {
        out.classes.push("timeout_shorter_than_round_trip");
    }
    if !c.junk.is_empty() {
        out.classes.push("junk_ack");
    }
    if peer {
        out.classes.push("unauthorized_peer_acks_in_front");
    }
    if c.hitch {
        out.classes.push("long_frame_before_the_change");
    }
    out
}

fn resend_strategy() -> impl Strategy<Value = Resend> {
    (
        (any::<bool>(), any::<bool>(), any::<bool>(), prop_oneof![Just(30u64), Just(60), Just(200), Just(500), Just(10_000)], 1u8..=5),
        proptest::collection::vec(any::<bool>(), 1..8),
        0u8..3,
        proptest::collection::vec(crate::sim::generate::junk_ack_bytes(), 0..3),
        any::<bool>(),
        0u8..2,
        any::<bool>(),
        prop_oneof![2 => Just(Vec::new()), 1 => proptest::collection::vec(proptest::collection::vec(any::<u8>(), 0..4), 1..3)],
        proptest::bool::weighted(0.3),
        0u8..4,
    )
        .prop_map(|((sync, track, children, timeout_ms, entities), hold, idle_frames, junk, mutate_again, vis, insert_before_release, peer_acks, hitch, ack_delay)| Resend {
            sync,
            track,
            children,
            timeout_ms,
            entities,
            hold,
            idle_frames,
            junk,
            mutate_again,
            vis,
            insert_before_release,
            peer_acks,
            hitch,
            ack_delay,
        })
}

pub struct C11 {
    engine: EngineProp,
}

pub fn c11() -> C11 {
    C11 {
        engine: EngineProp {
            id: "C11",
            oracles: Oracles { silence: true, converge: true, ..Default::default() },
            profiles: vec![(Profile::Lossy, 15000, 400_000), (Profile::Related, 10000, 250_000), (Profile::Tracked, 8000, 150_000), (Profile::Vis, 5000, 100_000), (Profile::Split, 50000, 1_000_000)],
            nontrivial: |s: &Sim| s.flags.contains("mut_dropped") || s.flags.contains("ack_delayed") || s.flags.contains("junk_ack"),
            rule: "",
            assumptions: vec![],
        },
    }
}

impl Prop for C11 {
    fn id(&self) -> &'static str {
        "C11"
    }
    fn units(&self, tier: Tier) -> Vec<Unit> {
        let mut v = vec![Unit::new("resend", if tier == Tier::Quick { 20_000 } else { 400_000 })];
        v.extend(self.engine.units(tier));
        v
    }
    fn run_unit(&self, unit: &Unit, cases: u32, seed: u64, stats: &mut Stats) -> Option<Failure> {
        if unit.name == "resend" {
            return run_proptest("resend", resend_strategy(), cases, seed, 2000, stats, |c| guarded("C11", || run_resend(c)));
        }
        self.engine.run_unit(unit, cases, seed, stats)
    }
    fn replay(&self, unit: &str, case: &Value) -> Outcome {
        if unit == "resend" {
            return match serde_json::from_value::<Resend>(case.clone()) {
                Ok(c) => run_resend(&c),
                Err(e) => Outcome::failed(Fail::new("infra.replay", e.to_string())),
            };
        }
        self.engine.replay(unit, case)
    }
    fn rule(&self) -> String {
        "engine units (lossy / related / tracked / vis profiles): generated histories with ack delay, mutate-message loss, junk acknowledgements and acknowledgement \
         timeouts of 30 ms; after the bounded settle phase C01 must hold (nothing skipped) and 2*period+4 further ticks must produce zero messages on the update and \
         mutation channels for every client (exactly one per tick with tracking). resend unit: a mutation whose acknowledgements are withheld for 1..7 ticks (mutate \
         messages delivered or lost per tick, tick-less frames in between, with / without a registered relationship graph, timeouts 30 / 60 / 10000 ms, junk bytes in the \
         ack stream): every tick of the hold phase must carry the mutation again (a message, or with tracking a message longer than the idle one), after release the client \
         has the data, the server falls silent, and the next change produces traffic again. Counts and lengths only, nothing is decoded. \
         non-trivial = a mutate message was lost, >= 2 acknowledgements were held back, junk was injected (resend) / loss, late ack or junk ack (engine)"
            .into()
    }
    fn assumptions(&self) -> Vec<String> {
        vec!["after the acknowledgements are released one further round trip is allowed before silence is demanded (a late ack may name a message the timeout already forgot)".into()]
    }
    fn shard_cases(&self) -> u32 {
        250
    }
}
