//! Properties decided by the simulation engine (C01-C05, C07-C09, C11, C16): one generic implementation.
use serde_json::Value;

use crate::common::*;
use crate::sim::generate::{Profile, case_strategy, run_case};
use crate::sim::{Case, Oracles, Sim};

pub struct EngineProp {
    pub id: &'static str,
    pub oracles: Oracles,
    /// (profile, quick cases, thorough cases)
    pub profiles: Vec<(Profile, u32, u32)>,
    pub nontrivial: fn(&Sim) -> bool,
    pub rule: &'static str,
    pub assumptions: Vec<&'static str>,
}

impl EngineProp {
    pub fn run(&self, case: &Case) -> Outcome {
        run_case(self.id, case, self.oracles, self.nontrivial)
    }
}

impl Prop for EngineProp {
    fn id(&self) -> &'static str {
        self.id
    }
    fn units(&self, tier: Tier) -> Vec<Unit> {
        self.profiles
            .iter()
            .map(|(p, q, t)| Unit::new(p.name(), if tier == Tier::Quick { *q } else { *t }).with(serde_json::json!({"thorough": tier == Tier::Thorough})))
            .filter(|u| u.cases > 0)
            .collect()
    }
    fn run_unit(&self, unit: &Unit, cases: u32, seed: u64, stats: &mut Stats) -> Option<Failure> {
        let p = Profile::from_name(&unit.name).expect("profile");
        let thorough = unit.param["thorough"].as_bool().unwrap_or(false);
        run_proptest(&unit.name, case_strategy(p, thorough), cases, seed, 3000, stats, |c: &Case| self.run(c))
    }
    fn replay(&self, _unit: &str, case: &Value) -> Outcome {
        match serde_json::from_value::<Case>(case.clone()) {
            Ok(c) => self.run(&c),
            Err(e) => Outcome::failed(Fail::new("infra.replay", format!("cannot decode case: {e}"))),
        }
    }
    fn rule(&self) -> String {
        self.rule.to_string()
    }
    fn assumptions(&self) -> Vec<String> {
        let mut v: Vec<String> = self.assumptions.iter().map(|s| s.to_string()).collect();
        v.push("the harness is the messaging backend: it honours the channel contracts (ordered: FIFO; unordered: no loss; unreliable: loss/reorder; never duplication or corruption)".into());
        v.push("server and clients register the same rules and events in the same order (except deliberately mismatching clients)".into());
        v.push("generator exclusions for known findings F4, F14, F15, F17, F20, F23 (counted in coverage.excluded)".into());
        v
    }
    fn shard_cases(&self) -> u32 {
        250
    }
}

fn has(sim: &Sim, f: &str) -> bool {
    sim.flags.contains(f)
}

pub fn c01() -> EngineProp {
    EngineProp {
        id: "C01",
        oracles: Oracles { converge: true, ..Default::default() },
        profiles: vec![(Profile::General, 15000, 300_000), (Profile::Lossy, 20000, 500_000), (Profile::Structural, 12000, 250_000), (Profile::Vis, 10000, 200_000), (Profile::Periodic, 5000, 100_000), (Profile::Related, 6000, 100_000), (Profile::Split, 30000, 600_000), (Profile::Tight, 30000, 600_000), (Profile::Wrap, 12000, 300_000)],
        nontrivial: |s| {
            has(s, "frame_without_tick_between_ops")
                || has(s, "mut_overtook_upd")
                || has(s, "mut_dropped")
                || has(s, "mut_reordered")
                || has(s, "late_joiner")
                || has(s, "clients_see_different_sets")
        },
        rule: "case = (configuration, 1..80 (thorough 1..120) steps of the step language: world ops, frames, per-message deliver/drop, connects); \
               executed against real server/client Apps, then a bounded lock-step settle phase; oracle: client view == server view for every authorized client. \
               non-trivial = the history contains a frame without a tick between operations, a mutate message overtaking an older update message, \
               a dropped or reordered mutate message, a late joiner, or clients with different visible sets; distinct = distinct structural hash of the case",
        assumptions: vec!["convergence is decided within 6 + 2*period lock-step rounds after the last generated step"],
    }
}

pub fn c02() -> EngineProp {
    EngineProp {
        id: "C02",
        oracles: Oracles { values: true, ..Default::default() },
        profiles: vec![(Profile::Lossy, 25000, 600_000), (Profile::General, 12000, 300_000), (Profile::Structural, 8000, 200_000), (Profile::Related, 5000, 100_000), (Profile::Split, 60000, 1_000_000), (Profile::Tight, 40000, 800_000), (Profile::Sessions, 30000, 600_000), (Profile::Wrap, 12000, 300_000), (Profile::Vis, 25000, 500_000)],
        nontrivial: |s| has(s, "mut_overtook_upd") || has(s, "mut_reordered") || has(s, "mut_dropped"),
        rule: "cases as C01; after EVERY client frame each mapped entity's continuously replicated components are compared with the recorded server snapshot \
               at the entity's ConfirmHistory::last_tick (all components against the same tick), once-components against the set of server values up to that tick, \
               and last_tick must not decrease. non-trivial = a mutate message overtook an older update message, or mutate messages were reordered or dropped",
        assumptions: vec!["per-tick server snapshots are taken from the server World by the harness, not from Replicon bookkeeping"],
    }
}

pub fn c03() -> EngineProp {
    EngineProp {
        id: "C03",
        oracles: Oracles { structure: true, ..Default::default() },
        profiles: vec![(Profile::Structural, 30000, 600_000), (Profile::General, 12000, 300_000), (Profile::Vis, 40000, 600_000), (Profile::Related, 4000, 100_000), (Profile::Tight, 50000, 900_000), (Profile::Wrap, 10000, 300_000)],
        nontrivial: |s| has(s, "frame_without_tick_between_ops") || has(s, "multi_upd_one_client_frame") || has(s, "vis_change"),
        rule: "cases as C01 with a structure-heavy profile; after EVERY client frame: ServerUpdateTick never decreases and is 0 or a tick at which an update message \
               was sent to this client; key set of the entity map, its inverse, Replicated markers and per-entity component sets equal the recorded structure the \
               server showed this client at that tick. non-trivial = operations spread over frames inside one tick window, >=2 update messages applied in one \
               client frame, or a visibility change",
        assumptions: vec!["visibility reference is the harness's record of the last set_visibility call per live entity"],
    }
}

pub fn c08() -> EngineProp {
    EngineProp {
        id: "C08",
        oracles: Oracles { wire: true, isvis: true, structure: true, converge: true, ..Default::default() },
        profiles: vec![(Profile::Vis, 100000, 2_000_000)],
        nontrivial: |s| has(s, "vis_change") && (has(s, "clients_see_different_sets") || has(s, "frame_without_tick_between_ops")),
        rule: "visibility-heavy cases under Blacklist and Whitelist with 2-3 clients; every entity's C component carries an 8-byte secret unique per write; \
               oracle: no replication message for client c contains the secret of an entity hidden from c in that frame (raw substring search), \
               ClientVisibility::is_visible equals the last setting after every server frame, and the C03/C01 oracles give gain/loss effects. \
               non-trivial = visibility changed and clients saw different sets or changes were spread over frames of one tick window",
        assumptions: vec!["secrets have the high bit set in every byte so they cannot collide with varint framing"],
    }
}

pub fn c09() -> EngineProp {
    EngineProp {
        id: "C09",
        oracles: Oracles { converge: true, values: true, structure: true, session: true, ev_once: true, ev_tick: true, mutate_ticks: true, ..Default::default() },
        profiles: vec![(Profile::Faults, 60000, 1_200_000), (Profile::Sessions, 80000, 1_600_000)],
        nontrivial: |s| {
            (has(s, "disconnect") || has(s, "server_restart"))
                && (has(s, "disc_updates_in_flight")
                    || has(s, "disc_mutations_in_flight")
                    || has(s, "disc_acks_in_flight")
                    || has(s, "disc_events_in_flight")
                    || has(s, "disc_changes_buffered_on_server"))
        },
        rule: "C01/C04 histories with Disconnect / ServerRestart injected at generated points (whatever is in flight then), reconnect after >=1 frame; \
               oracles: no panic, C02/C03 hold from the first frame of the new session against references that start empty, events carry their session, \
               no message is produced for a client entity of an ended session, C01 at quiescence; with tracking enabled the mutate-tick tracker is judged per session (C12's end-to-end oracle: nothing of the old session's ticks is reported in the new one). non-trivial = at the injection point something was in flight \
               (updates, mutations, acks, events) or buffered on the server",
        assumptions: vec!["on disconnect the harness, acting as the game, despawns the client's leftover replicated entities (ClientSet::Reset leaves them to the application)"],
    }
}

pub fn c16() -> EngineProp {
    EngineProp {
        id: "C16",
        oracles: Oracles { adoption: true, structure: true, values: true, converge: true, ..Default::default() },
        profiles: vec![(Profile::Prespawn, 80000, 1_600_000)],
        nontrivial: |s| has(s, "prespawn") && (has(s, "prespawn_mapping_in_later_frame") || has(s, "mut_overtook_upd") || has(s, "frame_without_tick_between_ops")),
        rule: "C01 steps plus PreSpawn{client, slot, kill, gap}: the client spawns a local entity, the server spawns its entity and registers the mapping in the same \
               frame or a later frame of the same tick window; oracle after every client frame: while the adoption is current the server entity maps to the \
               pre-spawned entity and no second entity exists (entity-count bookkeeping of C03), C02/C03 hold through the mapping; with kill a fresh entity is used. \
               non-trivial = an adoption happened and the mapping travelled in a later frame or other traffic surrounded it",
        assumptions: vec!["a slot with a pending mapping is locked until the tick that carries it (finding F20)"],
    }
}

pub fn c04() -> EngineProp {
    EngineProp {
        id: "C04",
        oracles: Oracles { ev_tick: true, ..Default::default() },
        profiles: vec![(Profile::Events, 60000, 1_000_000), (Profile::Events3, 100000, 2_000_000)],
        nontrivial: |s| has(s, "event_overtook_upd"),
        rule: "world steps plus server event emissions of five kinds (mapped dependent, independent, unordered, unreliable, trigger with target) in any frame, \
               per-channel delivery so events overtake pending update messages; oracle: a dependent event is seen by game logic only at an update tick >= the tick \
               of the last update message the server had sent to that client when the event left, and every referenced entity equals the client's mapping and is alive. \
               non-trivial = an event message was delivered while an older update message was still queued",
        assumptions: vec!["events are emitted from an Update system of the next server frame, as game logic would"],
    }
}

pub fn c05() -> EngineProp {
    EngineProp {
        id: "C05",
        oracles: Oracles { ev_once: true, ..Default::default() },
        profiles: vec![(Profile::Events, 40000, 800_000), (Profile::Auth, 12000, 200_000), (Profile::Events3, 40000, 800_000), (Profile::Sessions, 30000, 600_000)],
        nontrivial: |s| s.semits.len() + s.cemits.len() >= 3 && (s.clients.len() >= 2),
        rule: "sequences of emissions of 10 event types in both directions, all send modes, clients connecting / authorizing / disconnecting at generated points, \
               legal per-channel delivery; oracle: model of MUST / MAY / MUST-NOT recipient sets per emission; at quiescence reliable events seen exactly once by MUST, \
               at most once by MAY and unreliable, never by others; per ordered type and recipient sequence numbers increase; FromClient::client is the true sender; \
               mapped references arrive translated or the event is not sent. non-trivial = >=3 emissions with >=2 clients",
        assumptions: vec!["a client that was connected but not authorized between emission and the sending tick may or may not receive the event (MAY set)"],
    }
}

pub fn c07() -> EngineProp {
    EngineProp {
        id: "C07",
        oracles: Oracles { unauth: true, structure: true, converge: true, ev_once: true, ..Default::default() },
        profiles: vec![(Profile::Auth, 80000, 1_600_000)],
        nontrivial: |s| s.cfg.auth != 0 && s.world_ops >= 2,
        rule: "C01/C04 steps under AuthMethod::{ProtocolCheck, Custom, None}, hash delivered early / late / never, mismatching clients, clients the game never authorizes; \
               oracle: every message drained for a client without AuthorizedClient is on the channel of an independent event; from authorization on C03 applies \
               (first update message brings the complete visible state) and C01 at quiescence; mismatching hash => never authorized, notified, disconnect requested; the recipient model of C05 runs as well: a dependent event \
               whose sending tick passed while a client was connected but not authorized must never reach that client later. \
               non-trivial = authorization is not None and the world changed at least twice",
        assumptions: vec![],
    }
}
