//! C10: mutations of one entity or of related entities are never split across messages.
use std::collections::{BTreeMap, BTreeSet};

use bevy::prelude::*;
use bevy_replicon::client::confirm_history::ConfirmHistory;
use bevy_replicon::shared::server_entity_map::ServerEntityMap;
use proptest::prelude::*;
use serde::{Deserialize, Serialize};
use serde_json::Value;

use crate::common::*;
use crate::sim::*;

const P: usize = 0;

#[derive(Clone, Debug, Serialize, Deserialize)]
pub enum GOp {
    Attach(u8, u8),
    Detach(u8),
    Despawn(u8),
    Spawn(u8),
    MarkerOff(u8),
    MarkerOn(u8),
    Remark(u8),
    /// second relationship type (only with `Case::owners`)
    Own(u8, u8),
    Disown(u8),
    /// the server stops and starts again, every client connects anew: relationships that exist at that moment must be
    /// groups in the new session as well
    Restart,
    /// two entities that own each other (two `Own` operations with a tick in between)
    Mutual(u8, u8),
}

#[derive(Clone, Debug, Serialize, Deserialize)]
pub struct Round {
    pub graph: Vec<GOp>,
    /// (slot, kind 0 A / 1 payload / 2 S, raw size choice)
    pub muts: Vec<(u8, u8, u16)>,
    /// delivery picks for the probe client (one message per pick, a client frame after each)
    pub deliver: Vec<u16>,
    pub drop_rest: bool,
}

#[derive(Clone, Debug, Serialize, Deserialize)]
pub struct Case {
    pub m: u16,
    pub track: bool,
    pub n: u8,
    pub rounds: Vec<Round>,
    /// a second relationship (`OwnedBy`) is registered for synchronized replication as well
    #[serde(default)]
    pub owners: bool,
}

fn payload_len(raw: u16, m: usize) -> u16 {
    let sel = raw % 8;
    let r = (raw / 8) as usize;
    let v = match sel {
        0 => 0,
        1 => r % 12,
        2 | 3 => (m + 6).saturating_sub(r % 40),      // around the full message size
        4 => (m / 2 + 6).saturating_sub(r % 24),      // two of these straddle the limit
        5 => (m / 3 + 4).saturating_sub(r % 16),
        6 => 2 * m + r % 7,
        _ => r % (m + 1),
    };
    v.min(3000) as u16
}

fn groups(sim: &Sim) -> Vec<BTreeSet<usize>> {
    let n = sim.slots.len();
    let mut parent: Vec<usize> = (0..n).collect();
    fn find(p: &mut Vec<usize>, x: usize) -> usize {
        if p[x] != x {
            let r = find(p, p[x]);
            p[x] = r;
        }
        p[x]
    }
    for s in 0..n {
        if let Some(q) = sim.parents[s] {
            if sim.slots[s].is_some() && sim.slots[q].is_some() && sim.marked[s] && sim.marked[q] {
                let (a, b) = (find(&mut parent, s), find(&mut parent, q));
                parent[a] = b;
            }
        }
    }
    for s in 0..n {
        if let Some(q) = sim.owners[s] {
            if sim.slots[s].is_some() && sim.slots[q].is_some() && sim.marked[s] && sim.marked[q] {
                let (a, b) = (find(&mut parent, s), find(&mut parent, q));
                parent[a] = b;
            }
        }
    }
    let mut by: BTreeMap<usize, BTreeSet<usize>> = BTreeMap::new();
    for s in 0..n {
        if sim.slots[s].is_some() && sim.marked[s] {
            let r = find(&mut parent, s);
            by.entry(r).or_default().insert(s);
        }
    }
    by.into_values().collect()
}

fn sync(sim: &mut Sim, rounds: usize) {
    for _ in 0..rounds {
        // (rounds driven from here are steps of the history, too: the F23 exclusion compares step clocks)
        sim.clock += 1;
        sim.lockstep_round();
    }
}

fn mut_msgs_sent(sim: &Sim, c: usize) -> u32 {
    sim.mut_sent[c].values().sum()
}

pub fn run(c: &Case) -> Outcome {
    let n = (c.n as usize).clamp(2, 6);
    let m = (c.m as usize).clamp(40, 1400);
    let nclients = 1 + n + 1;
    let pair = nclients - 1;
    let mut max_size = vec![1_000_000usize; nclients];
    max_size[P] = m;
    let cfg = Cfg {
        vis: 2,
        clients: nclients,
        max_size,
        policy: 0,
        children: true,
        children_any_vis: true,
        sync: true,
        owners: c.owners,
        track: c.track,
        slots: n,
        ..Cfg::default()
    };
    let mut sim = Sim::new(&cfg, Oracles { values: true, ..Default::default() });
    if c.owners {
        // Visibility is re-assigned group-wise only after the graph operations of a round; in between a shadow client can
        // see an entity without its owner, and Bevy strips a relationship whose target is despawned on that client. The
        // probe sees everything at all times: values are judged there.
        sim.values_only = Some(vec![P]);
    }
    for i in 0..nclients {
        sim.connect(i);
    }
    for slot in 0..n {
        sim.step(&Step::Spawn { slot, marked: true, comps: vec![K::A, K::C, K::S] });
    }
    let mut out = Outcome::ok();
    let mut edited = false;
    let mut classes: BTreeSet<&'static str> = BTreeSet::new();
    for round in &c.rounds {
        // 1. graph evolution, then everybody in sync
        for g in &round.graph {
            if matches!(g, GOp::Restart) {
                sim.cfg.faults = true;
                sim.step(&Step::ServerRestart);
                for i in 0..nclients {
                    sim.connect(i);
                }
                classes.insert("server_restart");
                edited = true;
                sync(&mut sim, 2);
                continue;
            }
            if let GOp::Mutual(a, b) = *g {
                let (a, b) = (a as usize % n, b as usize % n);
                let before = sim.world_ops;
                sim.step(&Step::SetOwner { slot: a, owner: b });
                sync(&mut sim, 1);
                sim.step(&Step::SetOwner { slot: b, owner: a });
                sync(&mut sim, 1);
                if sim.world_ops != before {
                    edited = true;
                    classes.insert("mutual_relation");
                }
                continue;
            }
            let st = match *g {
                GOp::Attach(a, b) => Step::SetParent { slot: a as usize % n, parent: b as usize % n },
                GOp::Detach(a) => Step::DelParent { slot: a as usize % n },
                GOp::Despawn(a) => Step::Despawn { slot: a as usize % n },
                GOp::Spawn(a) => Step::Spawn { slot: a as usize % n, marked: true, comps: vec![K::A, K::C, K::S] },
                GOp::MarkerOff(a) => Step::Marker { slot: a as usize % n, on: false },
                GOp::MarkerOn(a) => Step::Marker { slot: a as usize % n, on: true },
                GOp::Remark(a) => Step::Remark { slot: a as usize % n },
                GOp::Own(a, b) => Step::SetOwner { slot: a as usize % n, owner: b as usize % n },
                GOp::Disown(a) => Step::DelOwner { slot: a as usize % n },
                GOp::Restart | GOp::Mutual(..) => unreachable!(),
            };
            let before = sim.world_ops;
            sim.step(&st);
            if (sim.world_ops != before && !matches!(g, GOp::Spawn(_))) || matches!(g, GOp::Remark(_)) {
                edited = true;
            }
            // one tick between graph operations (re-parenting = detach, tick, attach; finding F17)
            sync(&mut sim, 1);
        }
        // 2. units as the harness sees them
        let gs = groups(&sim);
        let mutated_slots: BTreeSet<usize> = round.muts.iter().map(|x| x.0 as usize % n).filter(|s| sim.slots[*s].is_some() && sim.marked[*s]).collect();
        let mutated_groups: Vec<usize> = (0..gs.len()).filter(|g| gs[*g].iter().any(|s| mutated_slots.contains(s))).collect();
        // 3. visibility: probe sees everything, shadow 1+j sees exactly group j, the pair shadow sees the first two mutated groups
        for slot in 0..n {
            if sim.slots[slot].is_none() {
                continue;
            }
            sim.step(&Step::Vis { client: P, slot, visible: sim.marked[slot] });
            for j in 0..n {
                let vis = gs.get(j).is_some_and(|g| g.contains(&slot));
                sim.step(&Step::Vis { client: 1 + j, slot, visible: vis });
            }
            let vis = mutated_groups.iter().take(2).any(|g| gs[*g].contains(&slot));
            sim.step(&Step::Vis { client: pair, slot, visible: vis });
        }
        sync(&mut sim, 3);
        if let Some(f) = sim.fail.take() {
            return Outcome::failed(f);
        }
        for ci in 0..nclients {
            for q in sim.clients[ci].s2c.iter().chain(sim.clients[ci].c2s.iter()) {
                if !q.is_empty() {
                    return Outcome::failed(Fail::new("infra.c10", "link not drained before the measured tick".to_string()));
                }
            }
        }
        // 4. the measured tick
        for &(slot, kind, raw) in &round.muts {
            let slot = slot as usize % n;
            match kind % 3 {
                0 => sim.step(&Step::Mutate { slot, k: K::A }),
                1 => sim.step(&Step::Resize { slot, len: payload_len(raw, m) }),
                _ => sim.step(&Step::Mutate { slot, k: K::S }),
            }
        }
        sim.step(&Step::ServerFrame { tick: true });
        let t = sim.tick();
        let lens = |sim: &Sim, ci: usize| -> Vec<usize> { sim.clients[ci].s2c[1].iter().map(|m| m.bytes.len()).collect() };
        for ci in 0..nclients {
            if !sim.clients[ci].s2c[0].is_empty() {
                return Outcome::failed(Fail::new("C10.unexpected_update", format!("client {ci} was sent an update message in a tick that only mutated components")));
            }
        }
        let p_lens = lens(&sim, P);
        // header sizes are equal across clients only while ticks and per-client message counters encode in one byte
        let small_counters = t < 120 && (0..nclients).all(|ci| mut_msgs_sent(&sim, ci) < 120);
        let mut unit_len: BTreeMap<usize, usize> = BTreeMap::new();
        for &g in &mutated_groups {
            let l = lens(&sim, 1 + g);
            if l.len() > 1 {
                return Outcome::failed(Fail::new("C10.split_with_huge_limit", format!("a client with a 1 MB limit got {} mutate messages for one unit", l.len())));
            }
            if let Some(&x) = l.first() {
                unit_len.insert(g, x);
            }
        }
        if small_counters && !unit_len.is_empty() {
            if unit_len.len() == 1 && !c.track {
                let l = *unit_len.values().next().unwrap();
                // A unit that fits must travel alone in exactly one message. A unit that exceeds the limit may be followed by
                // header-only messages (the library starts a new message for an empty related group behind an oversize
                // chunk): wasteful, but nothing in the statement forbids it. Header-only = at most 6 bytes here (ticks and
                // counters below 120: 3-4 bytes), the smallest message with an entity is longer.
                let carrying: Vec<usize> = if l > m { p_lens.iter().copied().filter(|x| *x > 6).collect() } else { p_lens.clone() };
                if carrying.len() != p_lens.len() {
                    classes.insert("header_only_message_behind_an_oversize_unit");
                }
                if carrying != vec![l] {
                    return Outcome::failed(Fail::new("C10.single_unit", format!("one unit of {l} bytes (max_size {m}): probe got messages {p_lens:?}")));
                }
            }
            if unit_len.len() >= 2 {
                let a = mutated_groups[0];
                let b = mutated_groups[1];
                let lp = lens(&sim, pair);
                if std::env::var("VH_DEBUG").is_ok() {
                    for ci in 0..nclients {
                        eprintln!("client {ci}: {:?}", sim.clients[ci].s2c[1].iter().map(|m| m.bytes.to_vec()).collect::<Vec<_>>());
                    }
                    eprintln!("groups {gs:?} mutated_groups {mutated_groups:?} unit_len {unit_len:?} pair {lp:?} probe {p_lens:?} owners {:?} parents {:?}", sim.owners, sim.parents);
                }
                if let (Some(&la), Some(&lb), [lab]) = (unit_len.get(&a), unit_len.get(&b), lp.as_slice()) {
                    let h = (la + lb) as i64 - *lab as i64;
                    if h <= 0 || h > 16 {
                        return Outcome::failed(Fail::new("infra.c10", format!("implausible header size {h} from {la}+{lb}-{lab}")));
                    }
                    let h = h as usize;
                    let chunks: Vec<usize> = unit_len.values().map(|l| l - h).filter(|c| *c > 0).collect();
                    let total: usize = chunks.iter().sum();
                    let got_total: usize = p_lens.iter().map(|l| l.saturating_sub(h)).sum();
                    if got_total != total {
                        return Outcome::failed(Fail::new(
                            "C10.conservation",
                            format!("units carry {total} payload bytes {chunks:?} (header {h}), probe messages {p_lens:?} carry {got_total}"),
                        ));
                    }
                    // With tracking the library sizes messages with the worst-case encoding of the per-tick message
                    // counter (up to 9 bytes more than it finally writes): "fits" takes the weakest reading.
                    let slack = if c.track { 9 } else { 0 };
                    if chunks.iter().all(|c| c + h + slack <= m) {
                        if let Some(big) = p_lens.iter().find(|l| **l > m) {
                            return Outcome::failed(Fail::new(
                                "C10.exceeds_max_size",
                                format!("every unit fits into max_size {m} (chunks {chunks:?}, header {h}) but a message of {big} bytes was sent: {p_lens:?}"),
                            ));
                        }
                        classes.insert("every_unit_fits");
                    }
                    if total + h + slack <= m {
                        if p_lens.len() != 1 {
                            return Outcome::failed(Fail::new(
                                "C10.not_one_message",
                                format!("everything fits into one message ({total}+{h} <= {m}) but {} were sent: {p_lens:?}", p_lens.len()),
                            ));
                        }
                        classes.insert("everything_fits");
                    }
                    // (header-only messages behind an oversize unit do not count, see above)
                    let carrying = p_lens.iter().filter(|l| **l > h).count();
                    if carrying > chunks.len().max(1) || (chunks.iter().all(|c| c + h <= m) && p_lens.len() > chunks.len().max(1)) {
                        return Outcome::failed(Fail::new("C10.more_messages_than_units", format!("{} messages ({carrying} with content) for {} units", p_lens.len(), chunks.len())));
                    }
                }
            }
        } else if !small_counters {
            classes.insert("size_clauses_skipped_large_counters");
        }
        if p_lens.len() >= 2 {
            classes.insert("tick_split_into_several_messages");
            out.nontrivial = true;
        }
        if edited && gs.iter().any(|g| g.len() >= 2 && g.iter().filter(|s| mutated_slots.contains(s)).count() >= 2) {
            classes.insert("group_mutated_after_graph_edit");
            out.nontrivial = true;
        }
        // 5. all-or-nothing: deliver the probe's messages one at a time in a generated order, possibly losing the rest
        let check_groups = |sim: &mut Sim| -> Option<Fail> {
            let w = sim.clients[P].app.world();
            let map = w.resource::<ServerEntityMap>();
            for g in &gs {
                let mut states: Vec<(usize, bool)> = Vec::new();
                for &s in g {
                    if !mutated_slots.contains(&s) {
                        continue;
                    }
                    let Some(se) = sim.slots[s] else { continue };
                    let Some(&ce) = map.to_client().get(&se) else { continue };
                    let Some(h) = w.get::<ConfirmHistory>(ce) else { continue };
                    states.push((s, h.last_tick().get() >= t));
                }
                if states.iter().any(|x| x.1) && states.iter().any(|x| !x.1) {
                    return Some(Fail::new("C10.group_split", format!("related entities of one group updated separately at tick {t}: {states:?}")));
                }
            }
            None
        };
        for &pickraw in &round.deliver {
            if !sim.deliver_s2c(P, 1, pickraw) {
                break;
            }
            sim.client_frame(P);
            if let Some(f) = sim.fail.take() {
                return Outcome::failed(f);
            }
            if let Some(f) = check_groups(&mut sim) {
                return Outcome::failed(f);
            }
        }
        if round.drop_rest {
            if !sim.clients[P].s2c[1].is_empty() {
                classes.insert("some_messages_lost");
            }
            sim.clients[P].s2c[1].clear();
        }
        sync(&mut sim, 3);
        if let Some(f) = sim.fail.take() {
            return Outcome::failed(f);
        }
    }
    out.classes = classes.into_iter().collect();
    out.excluded = sim.excluded.iter().map(|(k, v)| (*k, *v)).collect();
    out
}

fn gop() -> impl Strategy<Value = GOp> {
    prop_oneof![
        8 => (0u8..6, 0u8..6).prop_map(|(a, b)| GOp::Attach(a.max(b), a.min(b))),
        2 => (0u8..6).prop_map(GOp::Detach),
        1 => (0u8..6).prop_map(GOp::Despawn),
        1 => (0u8..6).prop_map(GOp::Spawn),
        1 => (0u8..6).prop_map(GOp::MarkerOff),
        1 => (0u8..6).prop_map(GOp::MarkerOn),
        2 => (0u8..6).prop_map(GOp::Remark),
        5 => (0u8..6, 0u8..6).prop_map(|(a, b)| GOp::Own(a, b)),
        1 => (0u8..6).prop_map(GOp::Disown),
        1 => Just(GOp::Restart),
        2 => (0u8..6, 0u8..6).prop_map(|(a, b)| GOp::Mutual(a, b)),
    ]
}

fn case_strategy() -> impl Strategy<Value = Case> {
    let round = (
        proptest::collection::vec(gop(), 0..5),
        proptest::collection::vec((0u8..6, 0u8..3, any::<u16>()), 1..8),
        proptest::collection::vec(any::<u16>(), 0..5),
        any::<bool>(),
    )
        .prop_map(|(graph, muts, deliver, drop_rest)| Round { graph, muts, deliver, drop_rest });
    (prop_oneof![40u16..200, 40u16..1400], any::<bool>(), 2u8..=6, proptest::collection::vec(round, 1..3), any::<bool>())
        .prop_map(|(m, track, n, rounds, owners)| Case { m, track, n, rounds, owners })
}

const SESSION_ORACLES: crate::sim::Oracles = crate::sim::Oracles {
    converge: true,
    values: true,
    structure: false,
    wire: false,
    isvis: false,
    silence: false,
    ev_tick: false,
    ev_once: false,
    unauth: false,
    adoption: false,
    session: false,
    mutate_ticks: false,
};

pub struct C10;

impl Prop for C10 {
    fn id(&self) -> &'static str {
        "C10"
    }
    fn units(&self, tier: Tier) -> Vec<Unit> {
        vec![
            Unit::new("split", if tier == Tier::Quick { 40_000 } else { 800_000 }),
            // the all-or-nothing clause over whole sessions: the engine's `split` profile (one tick's mutations in several
            // messages that are delivered / lost one by one, acknowledgement timeouts shorter than the round trip, several
            // ticks in flight) with the per-entity "all components at the same tick" oracle of C02 after every client frame
            // and convergence at the end (seed C10r9)
            Unit::new("split_sessions", if tier == Tier::Quick { 40_000 } else { 1_000_000 }).with(serde_json::json!({"thorough": tier == Tier::Thorough})),
        ]
    }
    fn run_unit(&self, unit: &Unit, cases: u32, seed: u64, stats: &mut Stats) -> Option<Failure> {
        if unit.name == "split_sessions" {
            use crate::sim::generate::{Profile, case_strategy as engine_cases, run_case};
            let thorough = unit.param["thorough"].as_bool().unwrap_or(false);
            return run_proptest(&unit.name, engine_cases(Profile::Split, thorough), cases, seed, 3000, stats, |c: &crate::sim::Case| {
                run_case("C10", c, SESSION_ORACLES, |s| s.flags.contains("mut_dropped") || s.flags.contains("mut_reordered"))
            });
        }
        run_proptest(&unit.name, case_strategy(), cases, seed, 2000, stats, |c| guarded("C10", || run(c)))
    }
    fn replay(&self, unit: &str, case: &Value) -> Outcome {
        if unit == "split_sessions" {
            return match serde_json::from_value::<crate::sim::Case>(case.clone()) {
                Ok(c) => crate::sim::generate::run_case("C10", &c, SESSION_ORACLES, |_| true),
                Err(e) => Outcome::failed(Fail::new("infra.replay", e.to_string())),
            };
        }
        match serde_json::from_value::<Case>(case.clone()) {
            Ok(c) => run(&c),
            Err(e) => Outcome::failed(Fail::new("infra.replay", e.to_string())),
        }
    }
    fn rule(&self) -> String {
        "case = max_size m in [40,1400] for a probe client, tracking on/off, 2..6 entities (A, payload C, sparse S) with ChildOf registered for synchronized \
         replication, 1..2 rounds of (graph evolution: attach / detach / despawn / respawn / marker toggle with a tick after each; mutations with payload sizes drawn \
         around m, m/2, m/3, 2m and tiny; a delivery order/subset for the probe's mutate messages). Sizes are learned operationally, without decoding: under Whitelist \
         shadow clients with a 1 MB limit see exactly one unit (entity or related group) each, a further shadow sees two units, so L_i = H + chunk_i and \
         H = L_a + L_b - L_ab. oracle: payload conservation over the probe's messages; every unit fits => no message > m; everything fits (+9 bytes slack with tracking) \
         => exactly one message; never more messages than units; delivering the probe's messages one at a time in a generated order (rest possibly lost): C02 per entity \
         after every frame and, for entities the harness's own union-find over ChildOf puts into one group and that changed in the tick, confirmed-at-tick is all or none. \
         non-trivial = the tick produced >= 2 messages for the probe, or a group of >= 2 entities changed together after the graph was edited. \
         Unit split_sessions: engine histories of the `split` profile (small message limits, one tick's mutations in several messages delivered / lost individually, \
         acknowledgement timeouts of 30 ms, several ticks in flight, 1-2 clients); oracle: after every client frame every entity's components all equal the server's \
         at the entity's confirmed tick (updated completely or not at all), and convergence at the end; non-trivial = a mutate message was dropped or reordered"
            .into()
    }
    fn assumptions(&self) -> Vec<String> {
        vec![
            "header sizes are equal across clients while ticks and per-client mutate-message counters stay below 120 (one-byte varints); size clauses are skipped otherwise (counted)".into(),
            "a related group is visible to a client as a whole".into(),
            "direct re-parenting is excluded (finding F17): detach, tick, attach".into(),
        ]
    }
    fn shard_cases(&self) -> u32 {
        125
    }
}
