//! C13: singleplayer / listen server / dedicated server / client see each local event exactly once.
use std::collections::BTreeMap;

use bevy::prelude::*;
use bevy_replicon::prelude::*;
use proptest::prelude::*;
use serde::{Deserialize, Serialize};
use serde_json::Value;

use crate::common::*;

/// 8 tag bytes with the high bit set, unique per sequence number: found by raw search in whatever leaves the app.
fn tag(seq: u32) -> [u8; 8] {
    ((seq as u64).wrapping_mul(0x9E37_79B9_7F4A_7C15) | 0x8080_8080_8080_8080).to_le_bytes()
}

#[derive(Event, Serialize, Deserialize, Clone, Debug)]
struct CEv(u32, [u8; 8]);
#[derive(Event, Serialize, Deserialize, Clone, Debug)]
struct CTrig(u32, [u8; 8]);
#[derive(Event, Serialize, Deserialize, Clone, Debug)]
struct SEv(u32, [u8; 8]);
#[derive(Event, Serialize, Deserialize, Clone, Debug)]
struct STrig(u32, [u8; 8]);
/// independent variants (sent immediately, not buffered until the tick)
#[derive(Event, Serialize, Deserialize, Clone, Debug)]
struct SEvI(u32, [u8; 8]);
#[derive(Event, Serialize, Deserialize, Clone, Debug)]
struct STrigI(u32, [u8; 8]);

#[derive(Clone, Copy, Debug)]
enum Emit {
    C(u32),
    CT(u32, bool),
    S(u32, u8),
    ST(u32, u8, bool),
    SI(u32, u8),
    STI(u32, u8),
}
#[derive(Resource, Default)]
struct Queue(Vec<Emit>);
/// client-direction emissions performed from a system in `Last` (after this frame's send / local re-emission)
#[derive(Resource, Default)]
struct LateQueue(Vec<Emit>);
#[derive(Resource, Default)]
struct Seen {
    from_client: Vec<(u32, Entity)>,
    local: Vec<u32>,
    /// (seq, client status 0/1/2 or 10+mode for server-direction, server running)
    at_emit: Vec<(u32, u8, bool)>,
    /// client triggers whose target cannot be mapped by a connected client (legitimately not sent)
    unmappable: Vec<u32>,
    /// (seq, index of the frame in whose `Last` schedule it was emitted)
    late: Vec<(u32, usize)>,
    /// client status (0/1/2) seen by `Update` of every frame
    status_by_frame: Vec<u8>,
    has_client: bool,
}
#[derive(Resource)]
struct Target(Entity);

fn mode(m: u8) -> SendMode {
    match m {
        0 => SendMode::Broadcast,
        1 => SendMode::BroadcastExcept(SERVER),
        2 => SendMode::BroadcastExcept(Entity::from_raw(777)),
        3 => SendMode::Direct(SERVER),
        _ => SendMode::Direct(Entity::from_raw(777)),
    }
}

fn emit(world: &mut World) {
    let q = std::mem::take(&mut world.resource_mut::<Queue>().0);
    let st = match world.get_resource::<RepliconClient>().map(|c| c.status()) {
        None | Some(RepliconClientStatus::Disconnected) => 0,
        Some(RepliconClientStatus::Connecting) => 1,
        Some(RepliconClientStatus::Connected) => 2,
    };
    let running = world.resource::<RepliconServer>().is_running();
    let target = world.resource::<Target>().0;
    world.resource_mut::<Seen>().status_by_frame.push(st);
    for e in q {
        match e {
            Emit::C(s) => {
                world.send_event(CEv(s, tag(s)));
                world.resource_mut::<Seen>().at_emit.push((s, st, running));
            }
            Emit::CT(s, with_target) => {
                if with_target {
                    world.client_trigger_targets(CTrig(s, tag(s)), target);
                    world.resource_mut::<Seen>().unmappable.push(s);
                } else {
                    world.client_trigger(CTrig(s, tag(s)));
                }
                world.resource_mut::<Seen>().at_emit.push((s, st, running));
            }
            // server-direction events are emitted only while `server_or_singleplayer` holds, as the docs require
            Emit::S(s, m) => {
                if st == 0 {
                    world.send_event(ToClients { mode: mode(m), event: SEv(s, tag(s)) });
                    world.resource_mut::<Seen>().at_emit.push((s, 10 + m, running));
                }
            }
            Emit::SI(s, m) => {
                if st == 0 {
                    world.send_event(ToClients { mode: mode(m), event: SEvI(s, tag(s)) });
                    world.resource_mut::<Seen>().at_emit.push((s, 10 + m, running));
                }
            }
            Emit::STI(s, m) => {
                if st == 0 {
                    world.server_trigger(ToClients { mode: mode(m), event: STrigI(s, tag(s)) });
                    world.resource_mut::<Seen>().at_emit.push((s, 10 + m, running));
                }
            }
            Emit::ST(s, m, with_target) => {
                if st == 0 {
                    if with_target {
                        world.server_trigger_targets(ToClients { mode: mode(m), event: STrig(s, tag(s)) }, target);
                    } else {
                        world.server_trigger(ToClients { mode: mode(m), event: STrig(s, tag(s)) });
                    }
                    world.resource_mut::<Seen>().at_emit.push((s, 10 + m, running));
                }
            }
        }
    }
}

fn emit_late(world: &mut World) {
    let q = std::mem::take(&mut world.resource_mut::<LateQueue>().0);
    let frame = world.resource::<Seen>().status_by_frame.len().saturating_sub(1);
    for e in q {
        match e {
            Emit::C(s) => {
                world.send_event(CEv(s, tag(s)));
                world.resource_mut::<Seen>().late.push((s, frame));
            }
            Emit::CT(s, _) => {
                world.client_trigger(CTrig(s, tag(s)));
                world.resource_mut::<Seen>().late.push((s, frame));
            }
            _ => {}
        }
    }
}

fn make_app(auth: u8, dedicated: bool, prequeued: u8) -> App {
    let mut app = App::new();
    let auth_method = if auth == 0 { AuthMethod::None } else { AuthMethod::ProtocolCheck };
    let plugins = RepliconPlugins.set(RepliconSharedPlugin { auth_method }).set(ServerPlugin { tick_policy: TickPolicy::EveryFrame, ..Default::default() });
    if dedicated {
        app.add_plugins((MinimalPlugins, plugins.build().disable::<ClientPlugin>().disable::<ClientEventPlugin>()));
    } else {
        app.add_plugins((MinimalPlugins, plugins));
    }
    if prequeued > 0 {
        // "Can be used for regular events that were previously registered": the game registered `CEv` as a plain Bevy event
        // and has already queued some (e.g. a plugin's `build`) when the networking layer turns it into a client event
        app.add_event::<CEv>();
        for s in 1..=prequeued as u32 {
            app.world_mut().send_event(CEv(s, tag(s)));
        }
    }
    app.add_client_event::<CEv>(Channel::Ordered)
        .add_client_trigger::<CTrig>(Channel::Ordered)
        .add_server_event::<SEv>(Channel::Ordered)
        .add_server_trigger::<STrig>(Channel::Ordered)
        .add_server_event::<SEvI>(Channel::Ordered)
        .make_event_independent::<SEvI>()
        .add_server_trigger::<STrigI>(Channel::Ordered)
        .make_trigger_independent::<STrigI>()
        .init_resource::<Queue>()
        .init_resource::<LateQueue>()
        .init_resource::<Seen>()
        .add_systems(Update, emit)
        .add_systems(Last, emit_late)
        .add_systems(
            PreUpdate,
            (|mut r: EventReader<FromClient<CEv>>, mut s: ResMut<Seen>| {
                for e in r.read() {
                    s.from_client.push((e.event.0, e.client));
                }
            })
            .after(ServerSet::Receive),
        )
        .add_observer(|t: Trigger<FromClient<CTrig>>, mut s: ResMut<Seen>| {
            let c = t.event().client;
            s.from_client.push((t.event().event.0, c));
        })
        .add_observer(|t: Trigger<STrig>, mut s: ResMut<Seen>| {
            s.local.push(t.event().0);
        })
        .add_observer(|t: Trigger<STrigI>, mut s: ResMut<Seen>| {
            s.local.push(t.event().0);
        });
    if dedicated {
        app.add_systems(PreUpdate, |mut r: EventReader<SEv>, mut s: ResMut<Seen>| {
            for e in r.read() {
                s.local.push(e.0);
            }
        });
        app.add_systems(PreUpdate, |mut r: EventReader<SEvI>, mut s: ResMut<Seen>| {
            for e in r.read() {
                s.local.push(e.0);
            }
        });
    } else {
        app.add_systems(
            PreUpdate,
            (|mut r: EventReader<SEvI>, mut s: ResMut<Seen>| {
                for e in r.read() {
                    s.local.push(e.0);
                }
            })
            .after(ClientSet::Receive),
        );
        app.add_systems(
            PreUpdate,
            (|mut r: EventReader<SEv>, mut s: ResMut<Seen>| {
                for e in r.read() {
                    s.local.push(e.0);
                }
            })
            .after(ClientSet::Receive),
        );
    }
    app.finish();
    let t = app.world_mut().spawn_empty().id();
    app.insert_resource(Target(t));
    app.world_mut().resource_mut::<Seen>().has_client = !dedicated;
    app
}

#[derive(Clone, Debug, Serialize, Deserialize)]
pub enum Step {
    Status(u8),
    Server(bool),
    EmitC,
    EmitCT(bool),
    EmitS(u8),
    EmitST(u8, bool),
    #[serde(alias = "EmitSI")]
    EmitSI(u8),
    EmitSTI(u8),
    /// client event / trigger emitted from `Last` of the next frame
    EmitLate(bool),
    Frame,
}

#[derive(Clone, Debug, Serialize, Deserialize)]
pub struct Case {
    pub auth: u8,
    pub dedicated: bool,
    /// number of `CEv` events the game queued before `add_client_event::<CEv>()` was called (judged like an emission from
    /// `Last` of a frame before the first one: exactly one path once the status is steady)
    #[serde(default)]
    pub prequeued: u8,
    pub steps: Vec<Step>,
}

pub fn run(c: &Case) -> Outcome {
    let mut app = make_app(c.auth, c.dedicated, c.prequeued);
    let mut seq = c.prequeued as u32;
    for s in 1..=c.prequeued as u32 {
        app.world_mut().resource_mut::<Seen>().late.push((s, 0));
    }
    let mut net: BTreeMap<u32, u32> = BTreeMap::new();
    let mut fail: Option<Fail> = None;
    let mut transitions_near_emit = false;
    let mut last_emit_frame: i64 = -10;
    let mut last_transition_frame: i64 = -10;
    let mut frames: i64 = 0;
    let mut kinds_in_frame = 0;
    let mut multi_kind = false;
    let mut frame = |app: &mut App, net: &mut BTreeMap<u32, u32>, seq: u32, fail: &mut Option<Fail>| {
        app.update();
        let connected = app.world().get_resource::<RepliconClient>().is_some_and(|c| c.is_connected());
        if let Some(mut client) = app.world_mut().get_resource_mut::<RepliconClient>() {
            let sent: Vec<_> = client.drain_sent().collect();
            for (_ch, msg) in sent {
                if !connected && fail.is_none() {
                    *fail = Some(Fail::new("C13.sent_without_connection", "a message was put on the network while the client is not connected".to_string()));
                }
                for s in 1..=seq {
                    let t = tag(s);
                    if msg.windows(8).any(|w| w == t) {
                        *net.entry(s).or_default() += 1;
                    }
                }
            }
        }
        let running = app.world().resource::<RepliconServer>().is_running();
        let n = app.world_mut().resource_mut::<RepliconServer>().drain_sent().count();
        // this app never has a connected client entity: whatever the server queues for sending has no connection to go to
        let _ = running;
        if n != 0 && fail.is_none() {
            *fail = Some(Fail::new("C13.sent_without_connection", format!("the server queued {n} message(s) for sending although no client is connected")));
        }
    };
    for st in &c.steps {
        match *st {
            Step::Status(s) => {
                if c.dedicated {
                    continue;
                }
                let cur = app.world().resource::<RepliconClient>().status();
                let new = match s % 3 {
                    0 => RepliconClientStatus::Disconnected,
                    1 => RepliconClientStatus::Connecting,
                    _ => RepliconClientStatus::Connected,
                };
                if cur != new {
                    // running client and server in one app is unsupported
                    if new != RepliconClientStatus::Disconnected && app.world().resource::<RepliconServer>().is_running() {
                        continue;
                    }
                    app.world_mut().resource_mut::<RepliconClient>().set_status(new);
                    last_transition_frame = frames;
                    if frames - last_emit_frame <= 2 {
                        transitions_near_emit = true;
                    }
                }
            }
            Step::Server(on) => {
                if on && !c.dedicated && !app.world().resource::<RepliconClient>().is_disconnected() {
                    continue;
                }
                if app.world().resource::<RepliconServer>().is_running() != on {
                    last_transition_frame = frames;
                    if frames - last_emit_frame <= 2 {
                        transitions_near_emit = true;
                    }
                }
                app.world_mut().resource_mut::<RepliconServer>().set_running(on);
            }
            Step::Frame => {
                frame(&mut app, &mut net, seq, &mut fail);
                frames += 1;
                kinds_in_frame = 0;
            }
            Step::EmitLate(trigger) => {
                seq += 1;
                app.world_mut().resource_mut::<LateQueue>().0.push(if trigger { Emit::CT(seq, false) } else { Emit::C(seq) });
                last_emit_frame = frames;
            }
            ref e => {
                seq += 1;
                let em = match *e {
                    Step::EmitC => Emit::C(seq),
                    Step::EmitCT(t) => Emit::CT(seq, t),
                    Step::EmitS(m) => Emit::S(seq, m % 5),
                    Step::EmitST(m, t) => Emit::ST(seq, m % 5, t),
                    // independent events are sent at once, without a lookup of the recipient: naming a client entity that
                    // does not exist is the game's error, so Direct(<unknown>) is not generated for them
                    Step::EmitSI(m) => Emit::SI(seq, m % 4),
                    Step::EmitSTI(m) => Emit::STI(seq, m % 4),
                    _ => unreachable!(),
                };
                app.world_mut().resource_mut::<Queue>().0.push(em);
                last_emit_frame = frames;
                if frames - last_transition_frame <= 2 {
                    transitions_near_emit = true;
                }
                kinds_in_frame += 1;
                if kinds_in_frame >= 2 {
                    multi_kind = true;
                }
            }
        }
    }
    for _ in 0..4 {
        frame(&mut app, &mut net, seq, &mut fail);
    }
    if let Some(f) = fail {
        return Outcome::failed(f);
    }
    let seen = app.world().resource::<Seen>();
    for &(s, st, _running) in &seen.at_emit {
        let local_fc = seen.from_client.iter().filter(|e| e.0 == s).count() as u32;
        let local_e = seen.local.iter().filter(|&&e| e == s).count() as u32;
        let n = net.get(&s).copied().unwrap_or(0);
        if st < 10 {
            if seen.from_client.iter().any(|e| e.0 == s && e.1 != SERVER) {
                return Outcome::failed(Fail::new("C13.sender", format!("local event {s} observed with a sender other than the local server")));
            }
            if local_fc + n > 1 {
                return Outcome::failed(Fail::new(
                    "C13.handled_twice",
                    format!("client-direction event {s} (status at emission {st}): handled locally {local_fc}x and sent {n}x"),
                ));
            }
            if c.dedicated {
                continue;
            }
            if st == 0 && local_fc != 1 {
                return Outcome::failed(Fail::new(
                    "C13.local_missing",
                    format!("event {s} emitted while server or singleplayer: observed locally {local_fc}x, expected 1"),
                ));
            }
            if st == 2 && n != 1 && !seen.unmappable.contains(&s) {
                return Outcome::failed(Fail::new("C13.send_missing", format!("event {s} emitted while connected: sent {n}x, expected 1")));
            }
        } else {
            let m = st - 10;
            let expect = matches!(m, 0 | 2 | 3) as u32;
            if c.dedicated {
                if local_e > 1 {
                    return Outcome::failed(Fail::new("C13.handled_twice", format!("server-direction event {s} observed locally {local_e}x on a dedicated server")));
                }
                continue;
            }
            if local_e != expect {
                return Outcome::failed(Fail::new(
                    "C13.local_server_event",
                    format!("server-direction event {s} mode {m}: observed locally {local_e}x, expected {expect}"),
                ));
            }
        }
    }
    // emissions from `Last`: never handled twice; exactly once when the status is steady (disconnected or connected) in the
    // frame of the emission and the two following frames (an event lives for two frames)
    for &(s, f) in &seen.late {
        let local_fc = seen.from_client.iter().filter(|e| e.0 == s).count() as u32;
        let n = net.get(&s).copied().unwrap_or(0);
        if local_fc + n > 1 {
            return Outcome::failed(Fail::new("C13.handled_twice", format!("event {s} emitted in Last of frame {f}: handled locally {local_fc}x and sent {n}x")));
        }
        if seen.from_client.iter().any(|e| e.0 == s && e.1 != SERVER) {
            return Outcome::failed(Fail::new("C13.sender", format!("local event {s} observed with a sender other than the local server")));
        }
        let st = &seen.status_by_frame;
        // (events queued before the registration exist before frame 0, while the status is `Disconnected`: a client that is
        // connected in frame 0 has just connected, and `ClientSet::ResetEvents` then discards pending events by design)
        let prequeued = s <= c.prequeued as u32;
        if !c.dedicated && f + 2 < st.len() && st[f] == st[f + 1] && st[f] == st[f + 2] && st[f] != 1 && !(prequeued && st[f] != 0) {
            let (want_local, want_net) = if st[f] == 0 { (1, 0) } else { (0, 1) };
            if local_fc != want_local || n != want_net {
                return Outcome::failed(Fail::new(
                    "C13.late_emission",
                    format!("event {s} emitted in Last of frame {f} (status {} steadily): handled locally {local_fc}x, sent {n}x", st[f]),
                ));
            }
        }
    }
    let mut out = Outcome::ok();
    out.nontrivial = (transitions_near_emit || multi_kind) && !(seen.at_emit.is_empty() && seen.late.is_empty());
    if !seen.late.is_empty() {
        out.classes.push("emission_from_last_schedule");
    }
    if transitions_near_emit {
        out.classes.push("transition_within_two_frames_of_emission");
    }
    if multi_kind {
        out.classes.push("several_emissions_in_one_frame");
    }
    if c.dedicated {
        out.classes.push("dedicated");
    }
    if c.prequeued > 0 {
        out.classes.push("events_queued_before_the_registration");
    }
    out
}

fn step() -> impl Strategy<Value = Step> {
    prop_oneof![
        3 => (0u8..3).prop_map(Step::Status),
        2 => any::<bool>().prop_map(Step::Server),
        4 => Just(Step::EmitC),
        3 => any::<bool>().prop_map(Step::EmitCT),
        3 => (0u8..5).prop_map(Step::EmitS),
        3 => (0u8..5, any::<bool>()).prop_map(|(m, t)| Step::EmitST(m, t)),
        2 => (0u8..5).prop_map(Step::EmitSI),
        2 => (0u8..5).prop_map(Step::EmitSTI),
        3 => any::<bool>().prop_map(Step::EmitLate),
        8 => Just(Step::Frame),
    ]
}

fn case_strategy() -> impl Strategy<Value = Case> {
    (0u8..2, proptest::bool::weighted(0.2), prop_oneof![3 => Just(0u8), 1 => 1u8..4], proptest::collection::vec(step(), 1..40))
        .prop_map(|(auth, dedicated, prequeued, steps)| Case { auth, dedicated, prequeued, steps })
}


// ---------------------------------------------------------------------------------------------------------------
// unit "backend": the same clause with the connection status driven by the real example backend (loopback TCP)

#[derive(Event, Serialize, Deserialize, Clone)]
struct BEv(u32);
#[derive(Event, Serialize, Deserialize, Clone)]
struct BTrig(u32);
/// (sequence number, sender) of every `FromClient` handled by this app's server-side logic
#[derive(Resource, Default)]
struct BSeen(Vec<(u32, Entity)>);

#[derive(Clone, Debug, Serialize, Deserialize)]
pub struct BackendCase {
    /// lock-step frames after the connection is established
    pub warm: u8,
    /// emissions: (trigger instead of event, frame relative to the one in which the game drops the connection: 0 = the
    /// frame before, 1 = the same frame, 2 = the frame after)
    pub emits: Vec<(bool, u8)>,
}

fn backend_app() -> App {
    use bevy_replicon_example_backend::RepliconExampleBackendPlugins;
    let mut app = App::new();
    app.add_plugins((
        MinimalPlugins,
        RepliconPlugins.set(RepliconSharedPlugin { auth_method: AuthMethod::None }).set(ServerPlugin { tick_policy: TickPolicy::EveryFrame, ..Default::default() }),
        RepliconExampleBackendPlugins,
    ))
    .add_client_event::<BEv>(Channel::Ordered)
    .add_client_trigger::<BTrig>(Channel::Ordered)
    .init_resource::<BSeen>()
    .add_observer(|t: Trigger<FromClient<BTrig>>, mut seen: ResMut<BSeen>| {
        seen.0.push((t.event().event.0, t.event().client));
    })
    .add_systems(Update, |mut r: EventReader<FromClient<BEv>>, mut seen: ResMut<BSeen>| {
        for e in r.read() {
            seen.0.push((e.event.0, e.client));
        }
    });
    app.finish();
    app
}

pub fn run_backend(c: &BackendCase) -> Outcome {
    use bevy_replicon_example_backend::{ExampleClient, ExampleServer};
    let mut server = backend_app();
    let mut client = backend_app();
    let sock = match ExampleServer::new(0) {
        Ok(s) => s,
        Err(e) => return Outcome::failed(Fail::new("infra.socket", format!("cannot open server socket: {e}"))),
    };
    let port = sock.local_addr().unwrap().port();
    server.insert_resource(sock);
    match ExampleClient::new(port) {
        Ok(s) => client.insert_resource(s),
        Err(e) => return Outcome::failed(Fail::new("infra.socket", format!("cannot connect: {e}"))),
    };
    for _ in 0..2 + (c.warm % 3) as usize {
        server.update();
        client.update();
    }
    if !client.world().resource::<RepliconClient>().is_connected() {
        return Outcome::failed(Fail::new("infra.socket", "client did not connect over loopback".to_string()));
    }
    let mut seq = 0u32;
    let mut emitted: Vec<(u32, u8)> = Vec::new();
    for frame in 0u8..3 {
        if frame == 1 {
            // the game drops the connection
            client.world_mut().remove_resource::<ExampleClient>();
        }
        for &(trig, when) in &c.emits {
            if when % 3 == frame {
                seq += 1;
                emitted.push((seq, frame));
                if trig {
                    client.world_mut().client_trigger(BTrig(seq));
                } else {
                    client.world_mut().send_event(BEv(seq));
                }
            }
        }
        client.update();
        server.update();
        if frame == 0 {
            // loopback delivery is fast but not instantaneous: the server reads what was sent while connected before the
            // game drops the connection (messages read in the same pass as the close are discarded with the client)
            for _ in 0..500 {
                if emitted.iter().all(|(s, _)| server.world().resource::<BSeen>().0.iter().any(|e| e.0 == *s)) {
                    break;
                }
                std::thread::sleep(std::time::Duration::from_millis(2));
                server.update();
            }
        }
    }
    // let everything settle: what was written to the socket before it closed still arrives
    let all_handled = |server: &App, client: &App| {
        emitted.iter().all(|(s, _)| server.world().resource::<BSeen>().0.iter().any(|e| e.0 == *s) || client.world().resource::<BSeen>().0.iter().any(|e| e.0 == *s))
    };
    for round in 0..200 {
        client.update();
        server.update();
        if round >= 3 && all_handled(&server, &client) {
            break;
        }
        std::thread::sleep(std::time::Duration::from_millis(2));
    }
    for (s, frame) in &emitted {
        let remote: Vec<Entity> = server.world().resource::<BSeen>().0.iter().filter(|e| e.0 == *s).map(|e| e.1).collect();
        let local: Vec<Entity> = client.world().resource::<BSeen>().0.iter().filter(|e| e.0 == *s).map(|e| e.1).collect();
        if remote.len() + local.len() != 1 {
            return Outcome::failed(Fail::new(
                "C13.backend_paths",
                format!("event {s} emitted in frame {frame} (the connection is dropped in frame 1): handled {} times by the remote server and {} times locally, expected exactly one path", remote.len(), local.len()),
            ));
        }
        if *frame >= 1 && (local.len() != 1 || local[0] != SERVER) {
            return Outcome::failed(Fail::new("C13.backend_local", format!("event {s} emitted in frame {frame} with the connection gone: local handling {local:?}, expected once with the local-server sender")));
        }
        if *frame == 0 && (remote.len() != 1 || remote[0] == SERVER) {
            return Outcome::failed(Fail::new("C13.backend_remote", format!("event {s} emitted while connected: remote handling {remote:?}, expected once with the client's identity")));
        }
    }
    let mut out = Outcome::ok();
    out.nontrivial = emitted.iter().any(|e| e.1 == 1);
    out.classes.push("example_backend");
    out
}

fn backend_strategy() -> impl Strategy<Value = BackendCase> {
    (0u8..3, proptest::collection::vec((any::<bool>(), 0u8..3), 1..5)).prop_map(|(warm, emits)| BackendCase { warm, emits })
}

pub struct C13;

impl Prop for C13 {
    fn id(&self) -> &'static str {
        "C13"
    }
    fn units(&self, tier: Tier) -> Vec<Unit> {
        vec![Unit::new("walks", if tier == Tier::Quick { 200_000 } else { 3_000_000 }), Unit::new("backend", if tier == Tier::Quick { 1_500 } else { 20_000 })]
    }
    fn run_unit(&self, unit: &Unit, cases: u32, seed: u64, stats: &mut Stats) -> Option<Failure> {
        if unit.name == "backend" {
            return run_proptest(&unit.name, backend_strategy(), cases, seed, 200, stats, |c| guarded("C13", || run_backend(c)));
        }
        run_proptest(&unit.name, case_strategy(), cases, seed, 4000, stats, |c| guarded("C13", || run(c)))
    }
    fn replay(&self, unit: &str, case: &Value) -> Outcome {
        if unit == "backend" {
            return match serde_json::from_value::<BackendCase>(case.clone()) {
                Ok(c) => run_backend(&c),
                Err(e) => Outcome::failed(Fail::new("infra.replay", e.to_string())),
            };
        }
        match serde_json::from_value::<Case>(case.clone()) {
            Ok(c) => run(&c),
            Err(e) => Outcome::failed(Fail::new("infra.replay", e.to_string())),
        }
    }
    fn rule(&self) -> String {
        "case = one App (full plugins, or server-only plugins = dedicated) with AuthMethod::{None, ProtocolCheck} and a walk of 1..40 steps over {client status -> \
         disconnected/connecting/connected, server start/stop, emit client event / client trigger (with/without target) / server event / server trigger (5 send modes, \
         with/without target), frame}; emissions happen in an Update system that records the status it saw; every payload carries an 8-byte tag found by raw search in \
         drain_sent. oracle: emitted while disconnected => exactly one local FromClient with sender SERVER and no send; while connected => exactly one send and no local \
         handling; while connecting => at most one handling; server-direction: local observation exactly once iff the mode includes the server; dedicated: never twice; \
         nothing leaves while not connected / not running. unit backend: a client app and a server app with the real example backend over loopback TCP; the game \
         removes the socket resource in one frame and emits 1..4 client events / triggers in the frame before, the same frame or the frame after: exactly one path each \
         (remote with the client's identity before, local with the local-server identity from the drop frame on). non-trivial = a status transition within two frames \
         of an emission, or several emissions in one frame (walks) / an emission in the drop frame (backend)"
            .into()
    }
    fn assumptions(&self) -> Vec<String> {
        vec!["running a client and a server in one app at the same time is unsupported and never generated".into(), "server-direction events are emitted only while the app is server or singleplayer".into()]
    }
    fn shard_cases(&self) -> u32 {
        1250
    }
}
