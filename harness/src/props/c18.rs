//! C18: scene export contains exactly the replicated state.
use std::collections::{BTreeMap, BTreeSet};

use bevy::prelude::*;
use bevy::scene::DynamicEntity;
use bevy::scene::serde::SceneDeserializer;
use bevy_replicon::prelude::*;
use bevy_replicon::scene::replicate_into;
use bevy_replicon::shared::replication::replication_registry::rule_fns::RuleFns;
use proptest::prelude::*;
use serde::de::DeserializeSeed;
use serde::{Deserialize, Serialize};
use serde_json::Value;

use crate::common::*;

macro_rules! reflected {
    ($($n:ident),*) => { $(
        #[derive(Component, Reflect, Serialize, Deserialize, Default, Clone, PartialEq, Debug)]
        #[reflect(Component)]
        pub struct $n(pub u32);
    )* };
}
reflected!(T0, TU, NR);
/// exportable like T0, with a stable reflection type path that differs from `core::any::type_name` (what a game does so that
/// saved scenes survive a module rename): the registry knows it by `TypeId` and by this path, not by its Rust name
#[derive(Component, Reflect, Serialize, Deserialize, Default, Clone, PartialEq, Debug)]
#[reflect(Component)]
#[type_path = "saved_game"]
pub struct T1(pub u32);
/// exportable like T0 / T1, with a field that reflection ignores (cloning it by reflection alone is impossible, the
/// export has to go through `FromReflect`)
#[derive(Component, Reflect, Serialize, Deserialize, Default, Clone, PartialEq, Debug)]
#[reflect(Component)]
pub struct T2(pub u32, #[reflect(ignore)] #[serde(skip)] pub u16);
/// reflected and registered, but without `#[reflect(Component)]`
#[derive(Component, Reflect, Serialize, Deserialize, Default, Clone, PartialEq, Debug)]
pub struct TN(pub u32);
/// not reflected at all
#[derive(Component, Serialize, Deserialize, Default, Clone, PartialEq, Debug)]
pub struct TZ(pub u32);

/// component kinds: 0..=2 exportable, 3 unregistered, 4 no reflect(Component), 5 unreflected, 6 not replicated
const NK: usize = 7;
const NAMES: [&str; NK] = ["T0", "T1", "T2", "TU", "TN", "TZ", "NR"];

#[derive(Clone, Copy, Debug, PartialEq, Eq, Serialize, Deserialize)]
pub enum Rule {
    Single(u8),
    Prio(u8, u8),
    Pair(u8),
    Triple,
}

fn rule_comps(r: Rule) -> Vec<usize> {
    match r {
        Rule::Single(k) | Rule::Prio(k, _) => vec![(k % 6) as usize],
        Rule::Pair(i) => match i % 5 {
            0 => vec![0, 1],
            1 => vec![1, 2],
            2 => vec![0, 3],
            3 => vec![2, 5],
            _ => vec![1, 4],
        },
        Rule::Triple => vec![0, 1, 2],
    }
}

fn apply_rule(app: &mut App, r: Rule) {
    fn single(app: &mut App, k: u8, p: Option<usize>) {
        macro_rules! reg {
            ($t:ty) => {
                match p {
                    None => {
                        app.replicate::<$t>();
                    }
                    Some(p) => {
                        app.replicate_with_priority(p, RuleFns::<$t>::default());
                    }
                }
            };
        }
        match k % 6 {
            0 => reg!(T0),
            1 => reg!(T1),
            2 => reg!(T2),
            3 => reg!(TU),
            4 => reg!(TN),
            _ => reg!(TZ),
        }
    }
    match r {
        Rule::Single(k) => single(app, k, None),
        Rule::Prio(k, p) => single(app, k, Some([0usize, 3, 9][p as usize % 3])),
        Rule::Pair(i) => match i % 5 {
            0 => {
                app.replicate_bundle::<(T0, T1)>();
            }
            1 => {
                app.replicate_bundle::<(T1, T2)>();
            }
            2 => {
                app.replicate_bundle::<(T0, TU)>();
            }
            3 => {
                app.replicate_bundle::<(T2, TZ)>();
            }
            _ => {
                app.replicate_bundle::<(T1, TN)>();
            }
        },
        Rule::Triple => {
            app.replicate_bundle::<(T0, T1, T2)>();
        }
    }
}

#[derive(Clone, Debug, Serialize, Deserialize)]
pub struct Ent {
    pub marked: bool,
    /// bit k: carries component kind k
    pub comps: u8,
    /// 0 not in the target scene, 1 pre-filled with NR only, 2 pre-filled empty
    pub prefill: u8,
    /// the entity carries Bevy's `Disabled` marker (hidden from ordinary queries; still an entity marked for replication)
    #[serde(default)]
    pub disabled: bool,
}

#[derive(Clone, Debug, Serialize, Deserialize)]
pub struct Case {
    pub rules: Vec<Rule>,
    pub ents: Vec<Ent>,
    /// a foreign entry in the target scene that is not an entity of this world at all
    pub foreign: bool,
}

fn kind_of(c: &dyn PartialReflect) -> Option<(usize, u32)> {
    if let Some(v) = c.try_downcast_ref::<T0>() { return Some((0, v.0)); }
    if let Some(v) = c.try_downcast_ref::<T1>() { return Some((1, v.0)); }
    if let Some(v) = c.try_downcast_ref::<T2>() { return Some((2, v.0)); }
    if let Some(v) = c.try_downcast_ref::<TU>() { return Some((3, v.0)); }
    if let Some(v) = c.try_downcast_ref::<TN>() { return Some((4, v.0)); }
    if let Some(v) = c.try_downcast_ref::<NR>() { return Some((6, v.0)); }
    None
}

pub fn run(c: &Case) -> Outcome {
    let mut app = App::new();
    app.add_plugins((MinimalPlugins, RepliconPlugins));
    app.register_type::<T0>().register_type::<T1>().register_type::<T2>().register_type::<TN>().register_type::<NR>();
    let mut seen_rules: Vec<Rule> = Vec::new();
    for &r in &c.rules {
        let canon = match r {
            Rule::Single(k) => Rule::Single(k % 6),
            Rule::Prio(k, p) => Rule::Prio(k % 6, p % 3),
            Rule::Pair(i) => Rule::Pair(i % 5),
            Rule::Triple => Rule::Triple,
        };
        if seen_rules.contains(&canon) {
            continue;
        }
        seen_rules.push(canon);
        apply_rule(&mut app, canon);
    }
    app.finish();
    let mut val = 100u32;
    let mut ids = Vec::new();
    let mut scene = DynamicScene::default();
    let mut expected: BTreeMap<Entity, BTreeMap<usize, u32>> = BTreeMap::new();
    let mut overlap = false;
    for e in &c.ents {
        let mut em = app.world_mut().spawn_empty();
        let mut vals = BTreeMap::new();
        for k in 0..NK {
            if e.comps & (1 << k) == 0 {
                continue;
            }
            val += 1;
            vals.insert(k, val);
            match k {
                0 => em.insert(T0(val)),
                1 => em.insert(T1(val)),
                2 => em.insert(T2(val, 7)),
                3 => em.insert(TU(val)),
                4 => em.insert(TN(val)),
                5 => em.insert(TZ(val)),
                _ => em.insert(NR(val)),
            };
        }
        if e.marked {
            em.insert(Replicated);
        }
        if e.disabled {
            em.insert(bevy::ecs::entity_disabling::Disabled);
        }
        let id = em.id();
        ids.push(id);
        let mut exp: BTreeMap<usize, u32> = BTreeMap::new();
        if e.prefill == 1 {
            val += 1;
            scene.entities.push(DynamicEntity { entity: id, components: vec![Box::new(NR(val)) as Box<dyn PartialReflect>] });
            exp.insert(6, val);
        } else if e.prefill == 2 {
            scene.entities.push(DynamicEntity { entity: id, components: vec![] });
        }
        if e.marked {
            let mut hits: BTreeMap<usize, u32> = BTreeMap::new();
            for r in &seen_rules {
                let rc = rule_comps(*r);
                if rc.iter().all(|k| vals.contains_key(k)) {
                    for k in rc {
                        *hits.entry(k).or_default() += 1;
                        if k <= 2 {
                            exp.insert(k, vals[&k]);
                        }
                    }
                }
            }
            if hits.iter().any(|(k, n)| *k <= 2 && *n >= 2) {
                overlap = true;
            }
            expected.insert(id, exp);
        } else if e.prefill != 0 {
            expected.insert(id, exp);
        }
    }
    if c.foreign {
        let foreign = Entity::from_raw(5000);
        scene.entities.push(DynamicEntity { entity: foreign, components: vec![Box::new(NR(7)) as Box<dyn PartialReflect>] });
        expected.insert(foreign, [(6usize, 7u32)].into());
    }
    replicate_into(&mut scene, app.world());

    let mut got: BTreeMap<Entity, Vec<(usize, u32)>> = BTreeMap::new();
    for de in &scene.entities {
        if got.contains_key(&de.entity) {
            return Outcome::failed(Fail::new("C18.duplicate_entity", format!("scene holds entity {} twice", de.entity)));
        }
        let mut v = Vec::new();
        for comp in &de.components {
            if comp.represents::<Replicated>() {
                return Outcome::failed(Fail::new("C18.marker_exported", format!("entity {} exported with the replication marker", de.entity)));
            }
            match kind_of(comp.as_ref()) {
                Some(kv) => v.push(kv),
                None => return Outcome::failed(Fail::new("C18.unexpected_component", format!("entity {} carries an unexpected component {:?}", de.entity, comp.reflect_type_path()))),
            }
        }
        got.insert(de.entity, v);
    }
    let got_keys: BTreeSet<_> = got.keys().copied().collect();
    let exp_keys: BTreeSet<_> = expected.keys().copied().collect();
    if got_keys != exp_keys {
        return Outcome::failed(Fail::new("C18.entity_set", format!("scene entities {got_keys:?}, expected {exp_keys:?}")));
    }
    for (e, comps) in &got {
        let mut m: BTreeMap<usize, u32> = BTreeMap::new();
        for (k, v) in comps {
            if m.insert(*k, *v).is_some() {
                return Outcome::failed(Fail::new("C18.duplicate_component", format!("entity {e} carries {} twice", NAMES[*k])));
            }
        }
        if &m != &expected[e] {
            let name = |m: &BTreeMap<usize, u32>| m.iter().map(|(k, v)| format!("{}={v}", NAMES[*k])).collect::<Vec<_>>();
            return Outcome::failed(Fail::new("C18.components", format!("entity {e}: exported {:?}, expected {:?}", name(&m), name(&expected[e]))));
        }
    }
    // the result can always be serialized and read back
    let registry = app.world().resource::<AppTypeRegistry>().clone();
    let registry = registry.read();
    let text = match scene.serialize(&registry) {
        Ok(t) => t,
        Err(e) => return Outcome::failed(Fail::new("C18.serialize", format!("scene does not serialize: {e}"))),
    };
    let mut de = match bevy::scene::ron::Deserializer::from_str(&text) {
        Ok(d) => d,
        Err(e) => return Outcome::failed(Fail::new("C18.deserialize", format!("serialized scene is not valid ron: {e}"))),
    };
    match (SceneDeserializer { type_registry: &registry }).deserialize(&mut de) {
        Ok(back) => {
            if back.entities.len() != scene.entities.len() {
                return Outcome::failed(Fail::new("C18.deserialize", format!("read back {} entities, wrote {}", back.entities.len(), scene.entities.len())));
            }
            for (a, b) in back.entities.iter().zip(scene.entities.iter()) {
                if a.components.len() != b.components.len() {
                    return Outcome::failed(Fail::new("C18.deserialize", format!("entity {} read back with {} components, wrote {}", b.entity, a.components.len(), b.components.len())));
                }
            }
        }
        Err(e) => return Outcome::failed(Fail::new("C18.deserialize", format!("scene cannot be read back: {e}"))),
    }
    let mut out = Outcome::ok();
    out.nontrivial = overlap;
    if overlap {
        out.classes.push("overlapping_rules_on_one_entity");
    }
    if c.ents.iter().any(|e| e.prefill != 0) {
        out.classes.push("prefilled_scene");
    }
    if c.ents.iter().any(|e| e.marked && e.disabled) {
        out.classes.push("marked_entity_that_is_disabled");
    }
    if c.ents.iter().any(|e| e.marked && e.comps & 0b0111_1111 == 0) {
        out.classes.push("marked_entity_without_components");
    }
    out
}

fn rule() -> impl Strategy<Value = Rule> {
    prop_oneof![
        4 => (0u8..6).prop_map(Rule::Single),
        2 => (0u8..6, 0u8..3).prop_map(|(k, p)| Rule::Prio(k, p)),
        3 => (0u8..5).prop_map(Rule::Pair),
        1 => Just(Rule::Triple),
    ]
}

fn case_strategy() -> impl Strategy<Value = Case> {
    let ent = (proptest::bool::weighted(0.75), 0u8..128, prop_oneof![3 => Just(0u8), 1 => Just(1u8), 1 => Just(2u8)], proptest::bool::weighted(0.15)).prop_map(|(marked, comps, prefill, disabled)| Ent { marked, comps, prefill, disabled });
    (proptest::collection::vec(rule(), 0..7), proptest::collection::vec(ent, 0..7), proptest::bool::weighted(0.2)).prop_map(|(rules, ents, foreign)| Case { rules, ents, foreign })
}

pub struct C18;

impl Prop for C18 {
    fn id(&self) -> &'static str {
        "C18"
    }
    fn units(&self, tier: Tier) -> Vec<Unit> {
        vec![Unit::new("worlds", if tier == Tier::Quick { 100_000 } else { 2_000_000 })]
    }
    fn run_unit(&self, unit: &Unit, cases: u32, seed: u64, stats: &mut Stats) -> Option<Failure> {
        run_proptest(&unit.name, case_strategy(), cases, seed, 3000, stats, |c| guarded("C18", || run(c)))
    }
    fn replay(&self, _unit: &str, case: &Value) -> Outcome {
        match serde_json::from_value::<Case>(case.clone()) {
            Ok(c) => run(&c),
            Err(e) => Outcome::failed(Fail::new("infra.replay", e.to_string())),
        }
    }
    fn rule(&self) -> String {
        "case = rule set (0..6 rules: single, single with custom priority, pair bundles, triple bundle over 6 component types of which 3 are reflected+registered, \
         1 reflected but unregistered, 1 without #[reflect(Component)], 1 unreflected) x world (0..6 entities, random component subsets incl. a non-replicated \
         component, marked or not, 15 % of them disabled with Bevy's `Disabled` marker) x target scene (empty, entries pre-filled with a non-replicated component or empty, optionally a foreign entry); oracle: expected \
         export computed from first principles (rule matches archetype => its components selected; keep registered ones that reflect Component): exactly one scene \
         entity per marked entity plus untouched pre-existing ones, each selected component exactly once with the current value, no marker, nothing else; the scene \
         serializes to ron and reads back with the same shape. non-trivial = some marked entity matches >= 2 rules sharing an exportable component"
            .into()
    }
    fn assumptions(&self) -> Vec<String> {
        vec!["pre-filled scene entries never contain a component that the rules select (the statement leaves that case open)".into()]
    }
    fn shard_cases(&self) -> u32 {
        1250
    }
}
