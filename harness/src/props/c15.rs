//! C15: entity wire encoding is lossless, decoding is total.
use bevy::prelude::Entity;
use bevy_replicon::shared::entity_serde::{deserialize_entity, serialize_entity};
use bytes::Bytes;
use proptest::prelude::*;
use serde_json::{Value, json};

use crate::common::*;

pub fn entity(index: u32, generation: u32) -> Option<Entity> {
    Entity::try_from_bits(((generation as u64) << 32) | index as u64).ok()
}

/// Round trip of one identifier embedded between `prefix` and `suffix`.
pub fn roundtrip(index: u32, generation: u32, prefix: &[u8], suffix: &[u8]) -> Outcome {
    let Some(e) = entity(index, generation) else {
        return Outcome::ok();
    };
    let mut buf = prefix.to_vec();
    if let Err(err) = serialize_entity(&mut buf, e) {
        return Outcome::failed(Fail::new("C15.encode_error", format!("encoding {e:?} failed: {err}")));
    }
    let enc_len = buf.len() - prefix.len();
    buf.extend_from_slice(suffix);
    let mut b = Bytes::from(buf).slice(prefix.len()..);
    match deserialize_entity(&mut b) {
        Ok(d) => {
            if d != e {
                return Outcome::failed(Fail::new("C15.roundtrip", format!("{index}v{generation} decoded as {}v{}", d.index(), d.generation())));
            }
            if &b[..] != suffix {
                return Outcome::failed(Fail::new(
                    "C15.consumed",
                    format!("decoder left {} bytes, expected the {}-byte suffix untouched (encoding took {enc_len} bytes)", b.len(), suffix.len()),
                ));
            }
        }
        Err(err) => return Outcome::failed(Fail::new("C15.roundtrip", format!("decoding the encoding of {index}v{generation} failed: {err}"))),
    }
    let mut out = Outcome::ok();
    out.nontrivial = generation > 1 || index >= 128;
    out
}

/// Totality on arbitrary bytes: `Err` or a valid identifier that re-encodes to itself; never a panic.
pub fn decode_total(data: &[u8]) -> Outcome {
    let mut b = Bytes::copy_from_slice(data);
    let mut out = Outcome::ok();
    match deserialize_entity(&mut b) {
        Ok(e) => {
            if Entity::try_from_bits(e.to_bits()).is_err() {
                return Outcome::failed(Fail::new("C15.invalid_entity", format!("bytes {data:?} decoded to invalid identifier bits {:#x}", e.to_bits())));
            }
            let consumed = data.len() - b.len();
            let mut re = Vec::new();
            if serialize_entity(&mut re, e).is_err() {
                return Outcome::failed(Fail::new("C15.encode_error", format!("re-encoding {e:?} failed")));
            }
            let mut b2 = Bytes::from(re.clone());
            match deserialize_entity(&mut b2) {
                Ok(e2) if e2 == e && b2.is_empty() => {}
                other => return Outcome::failed(Fail::new("C15.roundtrip", format!("re-encoding of {e:?} decodes as {other:?}"))),
            }
            out.nontrivial = re[..] != data[..consumed];
            out.classes.push("decoded");
        }
        Err(_) => {
            out.nontrivial = !data.is_empty();
            out.classes.push("rejected");
        }
    }
    out
}

fn boundary_values_u32() -> Vec<u32> {
    let mut v = vec![0u32, 1, 2];
    for k in 1..=32u32 {
        let p = if k == 32 { u32::MAX } else { (1u32 << k) - 1 };
        v.push(p);
        v.push(p.wrapping_add(1));
        v.push(p.wrapping_sub(1));
    }
    v.push(u32::MAX);
    v.push(u32::MAX - 1);
    v.sort();
    v.dedup();
    v
}

pub struct C15;

impl Prop for C15 {
    fn id(&self) -> &'static str {
        "C15"
    }
    fn units(&self, tier: Tier) -> Vec<Unit> {
        let q = tier == Tier::Quick;
        let mut v = vec![Unit::new("boundary_roundtrip", 1).fixed(), Unit::new("random_roundtrip", if q { 200_000 } else { 5_000_000 })];
        for k in 0..16 {
            v.push(Unit::new(&format!("decode_le3_{k:02}"), 1).with(json!(k)).fixed());
        }
        v.push(Unit::new("decode_random", if q { 300_000 } else { 8_000_000 }));
        v
    }
    fn run_unit(&self, unit: &Unit, cases: u32, seed: u64, stats: &mut Stats) -> Option<Failure> {
        let name = unit.name.as_str();
        if name == "boundary_roundtrip" {
            let vals = boundary_values_u32();
            let gens: Vec<u32> = vals.iter().copied().filter(|g| *g >= 1 && *g <= (1u32 << 31) - 1).collect();
            for &i in &vals {
                for &g in &gens {
                    for (p, s) in [(&[][..], &[][..]), (&[0xffu8, 0x01][..], &[0x80u8, 0x00, 0x7f][..])] {
                        let out = guarded("C15", || roundtrip(i, g, p, s));
                        let case = json!({"index": i, "generation": g, "prefix": p, "suffix": s});
                        stats.record_enumerated(|| case.clone(), &out);
                        if let Some(f) = out.fail {
                            return Some(Failure { unit: name.into(), case, fail: f });
                        }
                    }
                }
            }
            stats.exhaustive = true;
            return None;
        }
        if name.starts_with("decode_le3_") {
            let k = unit.param.as_u64().unwrap_or(0) as u32;
            let mut check = |data: &[u8], stats: &mut Stats| -> Option<Failure> {
                let out = guarded("C15", || decode_total(data));
                stats.record_enumerated(|| json!(data), &out);
                out.fail.map(|f| Failure { unit: "decode_random".into(), case: json!(data), fail: f })
            };
            if k == 0 {
                if let Some(f) = check(&[], stats) {
                    return Some(f);
                }
            }
            for a in (k * 16)..(k * 16 + 16) {
                let a = a as u8;
                if let Some(f) = check(&[a], stats) {
                    return Some(f);
                }
                for b in 0..=255u8 {
                    if let Some(f) = check(&[a, b], stats) {
                        return Some(f);
                    }
                    for c in 0..=255u8 {
                        if let Some(f) = check(&[a, b, c], stats) {
                            return Some(f);
                        }
                    }
                }
            }
            stats.exhaustive = true;
            return None;
        }
        if name == "random_roundtrip" {
            let strat = (
                prop_oneof![any::<u32>(), (0u32..33).prop_map(|k| if k == 32 { u32::MAX } else { 1u32 << k }), 0u32..300],
                prop_oneof![1u32..=(1u32 << 31) - 1, (0u32..31).prop_map(|k| 1u32 << k), 1u32..300, Just((1u32 << 31) - 1)],
                proptest::collection::vec(any::<u8>(), 0..6),
                proptest::collection::vec(any::<u8>(), 0..6),
            );
            return run_proptest(name, strat, cases, seed, 2000, stats, |(i, g, p, s): &(u32, u32, Vec<u8>, Vec<u8>)| guarded("C15", || roundtrip(*i, *g, p, s)));
        }
        // decode_random: random strings and mutated canonical encodings up to 16 bytes
        let canonical = (any::<u32>(), 1u32..=(1u32 << 31) - 1).prop_map(|(i, g)| {
            let mut v = Vec::new();
            if let Some(e) = entity(i, g) {
                let _ = serialize_entity(&mut v, e);
            }
            v
        });
        let mutated = (canonical, proptest::collection::vec((any::<u16>(), any::<u8>(), 0u8..4), 0..4), proptest::collection::vec(any::<u8>(), 0..6)).prop_map(
            |(mut v, muts, tail)| {
                for (pos, byte, kind) in muts {
                    if v.is_empty() {
                        break;
                    }
                    let p = pick(pos, v.len());
                    match kind {
                        0 => v[p] = byte,
                        1 => v[p] |= 0x80,
                        2 => {
                            v.truncate(p);
                        }
                        _ => v.insert(p, byte | 0x80),
                    }
                }
                v.extend(tail);
                v.truncate(16);
                v
            },
        );
        let varint_heavy = proptest::collection::vec(prop_oneof![Just(0xffu8), Just(0x80u8), Just(0x7fu8), Just(0x01u8), Just(0x0fu8), any::<u8>()], 0..16);
        // well-formed varints carrying boundary VALUES: flagged index as u64 (incl. values beyond 33 bits), optional generation
        // as u64 (incl. u32::MAX, 2^31-1, values that do not fit u32), optional trailing bytes
        fn leb(mut v: u64) -> Vec<u8> {
            let mut out = Vec::new();
            loop {
                let b = (v & 0x7f) as u8;
                v >>= 7;
                if v == 0 {
                    out.push(b);
                    break;
                }
                out.push(b | 0x80);
            }
            out
        }
        let edge64 = prop_oneof![
            (0u32..64).prop_map(|k| 1u64 << k),
            (1u32..65).prop_map(|k| if k == 64 { u64::MAX } else { (1u64 << k) - 1 }),
            (1u32..64).prop_map(|k| (1u64 << k) - 2),
            (0u32..63).prop_map(|k| (1u64 << k) + 1),
            any::<u64>(),
            (0u64..300),
        ];
        let structured = (edge64.clone(), proptest::option::of(edge64), proptest::collection::vec(any::<u8>(), 0..3)).prop_map(|(idx, generation, tail)| {
            let mut v = leb(idx);
            if let Some(g) = generation {
                // make sure the flag bit asks for a generation in most cases
                if idx & 1 == 0 {
                    v = leb(idx | 1);
                }
                v.extend(leb(g));
            }
            v.extend(tail);
            v.truncate(24);
            v
        });
        let strat = prop_oneof![2 => proptest::collection::vec(any::<u8>(), 0..16), 3 => mutated, 2 => varint_heavy, 4 => structured];
        run_proptest("decode_random", strat, cases, seed, 2000, stats, |d: &Vec<u8>| guarded("C15", || decode_total(d)))
    }
    fn replay(&self, unit: &str, case: &Value) -> Outcome {
        if unit == "fuzz" {
            let d: Vec<u8> = serde_json::from_value(case.clone()).unwrap_or_default();
            return run_fuzz(&d);
        }
        if unit.contains("roundtrip") {
            let (i, g, p, s) = if case.is_array() {
                let t: (u32, u32, Vec<u8>, Vec<u8>) = serde_json::from_value(case.clone()).unwrap_or_default();
                t
            } else {
                (
                    case["index"].as_u64().unwrap_or(0) as u32,
                    case["generation"].as_u64().unwrap_or(1) as u32,
                    serde_json::from_value(case["prefix"].clone()).unwrap_or_default(),
                    serde_json::from_value(case["suffix"].clone()).unwrap_or_default(),
                )
            };
            roundtrip(i, g, &p, &s)
        } else {
            let d: Vec<u8> = serde_json::from_value(case.clone()).unwrap_or_default();
            decode_total(&d)
        }
    }
    fn rule(&self) -> String {
        "round trip: index x generation exhaustively over the boundary lattice {0,1,2,2^k-2..2^k+1,...,2^32-1} x {1..2^31-1 boundaries} with and without surrounding bytes, \
         random pairs elsewhere; oracle decode(encode(e)) == e consuming exactly the encoding and leaving the suffix untouched. totality: ALL byte strings of length 0..3 \
         (16 843 009, exhaustive), random, varint-heavy, mutated canonical encodings up to 16 bytes and well-formed varints carrying boundary values (2^k, 2^k+-1, u32::MAX, u64::MAX) for index and generation; oracle: Err, or an identifier accepted by Entity::try_from_bits that \
         re-encodes and decodes to itself; a panic is a violation. non-trivial = generation > 1 or index >= 128 (round trip) / non-empty input that is rejected or is not the \
         canonical encoding of what it decodes to (totality)"
            .into()
    }
    fn assumptions(&self) -> Vec<String> {
        vec!["valid identifiers are those accepted by bevy's Entity::try_from_bits (generation 1..2^31-1)".into(), "profile: release optimisations with debug assertions and overflow checks armed".into()]
    }
    fn shard_cases(&self) -> u32 {
        25_000
    }
}

/// libFuzzer entry (thorough tier): totality on the raw input, plus a round trip of the identifier taken from its first 8 bytes.
pub fn run_fuzz(data: &[u8]) -> Outcome {
    guarded("C15", || {
        let out = decode_total(data);
        if out.fail.is_some() {
            return out;
        }
        if data.len() >= 8 {
            let index = u32::from_le_bytes([data[0], data[1], data[2], data[3]]);
            let generation = u32::from_le_bytes([data[4], data[5], data[6], data[7]]);
            let cut = 8 + (data.len() - 8) / 2;
            return roundtrip(index, generation, &data[8..cut], &data[cut..]);
        }
        out
    })
}
