pub mod alloc;
pub mod common;
pub mod props;
pub mod sim;
