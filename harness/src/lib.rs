pub mod common;
pub mod props;
pub mod sim;
