#![no_main]
use libfuzzer_sys::fuzz_target;

fuzz_target!(|data: &[u8]| {
    let out = vh::props::c15::run_fuzz(data);
    if let Some(f) = out.fail {
        panic!("{}: {}", f.class, f.msg);
    }
});
